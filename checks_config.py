"""Per-property campaign configuration for ./check (counts are rapid cases per
sub-check; thorough counts are totals split over the shards)."""

REF = "reference model harness/ref (written from MongoDB's documented semantics, self-tested against MongoDB-validated expectations transcribed from the repository's own tests)"
DRIVER = "go.mongodb.org/mongo-driver BSON codec and Extended JSON (case serialisation)"
RAPID = "pgregory.net/rapid v1.3.0 generation and shrinking"

CHECKS = {
    "C12": {
        "level": "exploration",
        "rule": "rapid draws triples (a,b,c) of BSON values from a collision-rich pool (all four numeric types around 0, 2^31, 2^53, 2^63, 1e23, non-finite doubles and decimals, random bits; strings, binaries, dates, timestamps, object ids, regexes, documents and arrays to depth 3); b and c are mutations of a in 75% of cases (equal copy, late difference, proper prefix, numeric type swap). Oracle: reflexive on a deep copy, agreement of sign(Compare) with the exact reference order for all 9 ordered pairs, antisymmetry, transitivity and interchangeability of equal values over all 27 orderings, invariance under identical array/document contexts. Non-trivial = some pair of the same type class differs or is equal across Go types, or the triple contains >= 2 numeric types; distinct = FNV-64 of the canonical Extended JSON of the triple (capped at 300000 per shard: a lower bound).",
        "assumptions": [REF + " (ref.Cmp: exact rationals via math/big)", DRIVER, RAPID],
        "subs": [
            {"test": "TestProp_C12_order", "quick": 150000, "thorough": 14000000, "shards_q": 1, "shards_t": 14, "budget_q": 300, "budget_t": 1500},
        ],
    },
}
