"""Per-property campaign configuration for ./check (counts are rapid cases per
sub-check; thorough counts are totals split over the shards)."""

REF = "reference model harness/ref (written from MongoDB's documented semantics, self-tested against MongoDB-validated expectations transcribed from the repository's own tests)"
DRIVER = "go.mongodb.org/mongo-driver BSON codec and Extended JSON (case serialisation)"
RAPID = "pgregory.net/rapid v1.3.0 generation and shrinking"

CHECKS = {
    "C14": {
        "level": "exploration",
        "rule": "Two generated sub-checks. project: (document with scalar / ObjectID / document-valued _id, nested documents and arrays; projection of 1-4 entries over dotted paths: inclusion/exclusion flags of all numeric and boolean types, _id handling, $slice n and [skip,limit] incl. negatives and out-of-range, $elemMatch in operator and field form, 20% mixed and deliberately overlapping, paths biased to the document) through mongokit.Project. Oracle: the stored document is byte-identical after projecting (always, also for overlapping paths and errors); projecting twice gives the same result up to field order; inside the domain of DESIGN.md 8.3 (paths descend embedded documents, no path collisions) the result equals the independent reference ref.Project up to field order, mixing inclusion and exclusion is rejected. driver: through Find / FindOne / FindOneAndUpdate on a fresh in-memory engine: stored documents byte-identical after projected reads and after scribbling over every decoded result, the three calls project identically, plain projections return only values stored at the same path. Non-trivial: project = at least 2 entries, one nested, one existing in the document, or a required rejection; driver = accepted projection with at least 2 entries. distinct = FNV-64 of the canonical case per sub-check.",
        "assumptions": [REF + " (ref.Project, ref.Match)", DRIVER, RAPID, "result field order is not compared; fan-out of projection paths over arrays and overlapping paths are outside the agreement domain (non-mutation is still required there)"],
        "subs": [
            {"test": "TestProp_C14_project", "quick": 150000, "thorough": 14000000, "shards_q": 1, "shards_t": 14, "budget_q": 300, "budget_t": 1500},
            {"test": "TestProp_C14_driver", "quick": 12000, "thorough": 1400000, "shards_q": 1, "shards_t": 14, "budget_q": 300, "budget_t": 1500},
        ],
    },
    "C13": {
        "level": "exploration",
        "rule": "rapid draws a collection of 0-12 (15%: 13-40) documents whose fields a,b,c come from a per-case palette of 2-5 values (numbers of several types, strings, null, arrays of scalars, empty array, sub-documents, arrays of sub-documents) so ties are frequent, a filter ({} in 50%, else from the C10 grammar biased to the documents), a sort of 1-3 keys over {a,b,c,a.b,a.c,_id} with directions, skip and limit in 0..6 and a distinct path; everything is executed through the driver API on a fresh in-memory engine. Oracle: unsorted Find = the documents the reference matcher selects, in insertion order; the full sorted result is a permutation of them, non-decreasing under the reference key order (ref.Cmp on min element ascending / max element descending, missing as null, reversed for -1) and stable; Find/FindOne/CountDocuments with skip/limit return exactly the window of the full ordering; sorted FindOneAndUpdate / FindOneAndDelete act on its first element; Distinct is strictly ascending and equals, as a set under BSON equality, the values at the path (array elements individually). Sort keys that are empty arrays or reached through an array are outside the order check (window checks still apply). Non-trivial = at least 4 matching documents, at least one tie under the sort, and 0 < skip < number of matches. distinct = FNV-64 of the canonical case.",
        "assumptions": [REF + " (ref.Match, ref.Cmp, ref.Walk)", DRIVER, RAPID],
        "subs": [
            {"test": "TestProp_C13_window", "quick": 15000, "thorough": 2800000, "shards_q": 1, "shards_t": 14, "budget_q": 300, "budget_t": 1800},
        ],
    },
    "C11": {
        "level": "exploration",
        "rule": "Four generated sub-checks. single: (document, one operator, one path, argument, upsert flag) applied through mongokit.Apply and compared byte-for-byte with the independent reference ref.ApplyOp inside the domain of DESIGN.md 8.2 (all 14 operators incl. $push modifiers, all numeric type pairs incl. overflow boundaries, dotted and numeric paths; the reference classifies decimal arithmetic, empty $each on a missing field, width-only $bit changes etc. as Outside), accept/reject agreement, untouched fields keep value and position. driver: through lungo's driver API (UpdateOne on a 2-document collection): rejected updates leave every byte unchanged, ModifiedCount=1 iff the stored bytes changed, _id stays first and unchanged, the other document is untouched, and for $set/$unset/$min/$max/$addToSet/$pull/$pullAll a second application changes nothing and reports 0 modified. multi: a combined update of 2-3 operators on distinct top-level fields equals applying the operators one at a time. positional: a.$[] and a.$[x] (with 1-2 array filters, elements chosen by the reference matcher) equal the same operator on the explicit element paths. Non-trivial: the update changed the document on a nested/array path (single), was rejected (counted separately), changed the stored document (driver/multi) or touched at least one selected element (positional). distinct = FNV-64 of the canonical case per sub-check (capped 300000 per shard).",
        "assumptions": [REF + " (ref.ApplyOp, ref.Match)", DRIVER, RAPID, "agreement only inside DESIGN.md 8.2; statically conflicting update paths are kept out of the generators (lungo detects conflicts only between effective operators)"],
        "subs": [
            {"test": "TestProp_C11_single", "quick": 150000, "thorough": 14000000, "shards_q": 1, "shards_t": 14, "budget_q": 300, "budget_t": 1500},
            {"test": "TestProp_C11_driver", "quick": 8000, "thorough": 700000, "shards_q": 1, "shards_t": 14, "budget_q": 300, "budget_t": 1500},
            {"test": "TestProp_C11_multi", "quick": 60000, "thorough": 5600000, "shards_q": 1, "shards_t": 14, "budget_q": 300, "budget_t": 1500},
            {"test": "TestProp_C11_positional", "quick": 60000, "thorough": 5600000, "shards_q": 1, "shards_t": 14, "budget_q": 300, "budget_t": 1500},
        ],
    },
    "C10": {
        "level": "exploration",
        "rule": "Three generated sub-checks over mongokit.Match. agree: (document, filter) pairs in the core domain of DESIGN.md section 8.1 (documents of depth <= 2 with scalars of every type incl. Decimal128/NaN/Inf, embedded documents, arrays of scalars or documents; filters from the operator grammar, depth <= 2, 60% of paths and 40% of operands taken from the document itself) compared with the independent reference matcher harness/ref/match.go; pairs the reference classifies Outside/Invalid are counted, not compared. laws: on the wide domain (nested arrays, regex, all operands) 17 logical laws ($nor = not $or, $ne/$nin/$not exact negations, $and/$or/implicit-and as conjunction/disjunction, $in = disjunction of $eq, $gte = $gt or $eq, $exists, double negation, commutativity/idempotence) evaluated by lungo on both sides. meta: result invariant under appending an unrelated field, wrapping the document one level deeper with prefixed paths, and an order-preserving consistent renaming of fields. Non-trivial: agree = a filter path resolves to an existing value and the filter has >= 2 operators or touches an array / fans out (both truth values counted in classes); laws/meta = the path(s) resolve to an existing value. distinct = FNV-64 of the canonical Extended JSON of the case, per sub-check (capped 300000 per shard).",
        "assumptions": [REF + " (ref.Match, ref.Walk, ref.Cmp)", DRIVER, RAPID, "agreement is only asserted inside the core domain (DESIGN.md 8.1); malformed operator arguments are outside the property's quantifier and only checked for no-panic"],
        "subs": [
            {"test": "TestProp_C10_agree", "quick": 150000, "thorough": 14000000, "shards_q": 1, "shards_t": 14, "budget_q": 300, "budget_t": 1500},
            {"test": "TestProp_C10_laws", "quick": 30000, "thorough": 2800000, "shards_q": 1, "shards_t": 14, "budget_q": 300, "budget_t": 1500},
            {"test": "TestProp_C10_meta", "quick": 60000, "thorough": 5600000, "shards_q": 1, "shards_t": 14, "budget_q": 300, "budget_t": 1500},
        ],
    },
    "C12": {
        "level": "exploration",
        "rule": "rapid draws triples (a,b,c) of BSON values from a collision-rich pool (all four numeric types around 0, 2^31, 2^53, 2^63, 1e23, non-finite doubles and decimals, random bits; strings, binaries, dates, timestamps, object ids, regexes, documents and arrays to depth 3); b and c are mutations of a in 75% of cases (equal copy, late difference, proper prefix, numeric type swap). Oracle: reflexive on a deep copy, agreement of sign(Compare) with the exact reference order for all 9 ordered pairs, antisymmetry, transitivity and interchangeability of equal values over all 27 orderings, invariance under identical array/document contexts. Non-trivial = some pair of the same type class differs or is equal across Go types, or the triple contains >= 2 numeric types; distinct = FNV-64 of the canonical Extended JSON of the triple (capped at 300000 per shard: a lower bound).",
        "assumptions": [REF + " (ref.Cmp: exact rationals via math/big)", DRIVER, RAPID],
        "subs": [
            {"test": "TestProp_C12_order", "quick": 150000, "thorough": 14000000, "shards_q": 1, "shards_t": 14, "budget_q": 300, "budget_t": 1500},
        ],
    },
}
