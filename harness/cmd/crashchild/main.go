// Command crashchild applies a commit history to a lungo file store and
// journals its progress on stdout; the C05 check kills it or injects syscall
// errors under strace.
package main

import (
	"os"

	"verifharness/props"
)

func main() { os.Exit(props.CrashChildMain(os.Args[1:])) }
