package gen

import (
	"go.mongodb.org/mongo-driver/bson"
	"go.mongodb.org/mongo-driver/bson/primitive"
	"pgregory.net/rapid"
)

var Paths = []string{"a", "b", "c", "a.b", "a.c", "b.a", "a.0", "a.1", "a.b.c", "a.0.b", "b.1.a", "a.b.0", "_id", "ab"}

var TypeSpecs = []interface{}{"double", "string", "object", "array", "binData", "objectId", "bool", "date", "null", "regex", "int", "timestamp", "long", "decimal", "number", int32(1), int32(2), int32(16), int64(18), float64(10), int32(4), int32(3)}

// Hint biases filters / updates / projections towards a concrete document:
// paths that exist in it and values that occur in it.
type Hint struct {
	Paths  []string
	Values []interface{}
}

// HintOf extracts the paths (incl. positional ones) and values of documents.
func HintOf(docs ...bson.D) Hint {
	var h Hint
	seen := map[string]bool{}
	var walk func(prefix string, v interface{}, depth int)
	walk = func(prefix string, v interface{}, depth int) {
		if prefix != "" && !seen[prefix] {
			seen[prefix] = true
			h.Paths = append(h.Paths, prefix)
		}
		if prefix != "" && len(h.Values) < 24 {
			h.Values = append(h.Values, v)
		}
		if depth > 3 {
			return
		}
		switch x := v.(type) {
		case bson.D:
			for _, e := range x {
				if e.Key == "" {
					continue
				}
				p := e.Key
				if prefix != "" {
					p = prefix + "." + e.Key
				}
				walk(p, e.Value, depth+1)
			}
		case bson.A:
			for i, e := range x {
				if i < 2 {
					walk(prefix+"."+string(rune('0'+i)), e, depth+1)
				}
				// implicit traversal paths
				if d, ok := e.(bson.D); ok {
					for _, f := range d {
						if f.Key != "" {
							walk(prefix+"."+f.Key, f.Value, depth+2)
						}
					}
				}
			}
		}
	}
	for _, d := range docs {
		walk("", d, 0)
	}
	return h
}

var curHint *Hint

// WithHint runs f with the hint installed (generators are single-threaded per
// rapid case).
func WithHint(h Hint, f func()) {
	old := curHint
	curHint = &h
	defer func() { curHint = old }()
	f()
}

func (c Cfg) PathFrom(t *rapid.T, paths []string) string {
	if curHint != nil && len(curHint.Paths) > 0 && rapid.IntRange(0, 9).Draw(t, "hp") < 6 {
		return rapid.SampledFrom(curHint.Paths).Draw(t, "hpath")
	}
	return rapid.SampledFrom(paths).Draw(t, "path")
}

func (c Cfg) Operand() *rapid.Generator[interface{}] {
	return rapid.Custom(func(t *rapid.T) interface{} {
		k := rapid.IntRange(0, 9).Draw(t, "ok")
		if curHint != nil && len(curHint.Values) > 0 && k < 4 {
			v := rapid.SampledFrom(curHint.Values).Draw(t, "hv")
			if rapid.Bool().Draw(t, "hmut") {
				return c.Mutate(v, t)
			}
			return v
		}
		if k < 7 {
			return c.Scalar().Draw(t, "s")
		}
		return c.Value(1, false).Draw(t, "v")
	})
}

func (c Cfg) OpExpr(depth int) *rapid.Generator[bson.E] {
	return rapid.Custom(func(t *rapid.T) bson.E {
		ops := []string{"$eq", "$ne", "$gt", "$gte", "$lt", "$lte", "$in", "$nin", "$exists", "$type", "$size", "$all", "$mod", "$bitsAllSet", "$bitsAnySet", "$bitsAllClear", "$bitsAnyClear", "$not", "$elemMatch"}
		op := rapid.SampledFrom(ops).Draw(t, "op")
		switch op {
		case "$in", "$nin", "$all":
			n := rapid.IntRange(0, 3).Draw(t, "n")
			a := bson.A{}
			for i := 0; i < n; i++ {
				a = append(a, c.Operand().Draw(t, "m"))
			}
			return bson.E{Key: op, Value: a}
		case "$exists":
			return bson.E{Key: op, Value: rapid.SampledFrom([]interface{}{true, false, int32(1), int32(0), nil, "x"}).Draw(t, "ex")}
		case "$type":
			if rapid.IntRange(0, 4).Draw(t, "multi") == 0 {
				return bson.E{Key: op, Value: bson.A{rapid.SampledFrom(TypeSpecs).Draw(t, "t1"), rapid.SampledFrom(TypeSpecs).Draw(t, "t2")}}
			}
			return bson.E{Key: op, Value: rapid.SampledFrom(TypeSpecs).Draw(t, "t")}
		case "$size":
			return bson.E{Key: op, Value: rapid.SampledFrom([]interface{}{int32(0), int32(1), int32(2), int64(3), float64(2)}).Draw(t, "sz")}
		case "$mod":
			dv := rapid.SampledFrom([]interface{}{int32(2), int32(3), int64(2), float64(2), float64(2.5), int32(-2)}).Draw(t, "dv")
			rm := rapid.SampledFrom([]interface{}{int32(0), int32(1), int64(1), float64(0), int32(-1)}).Draw(t, "rm")
			return bson.E{Key: op, Value: bson.A{dv, rm}}
		case "$bitsAllSet", "$bitsAnySet", "$bitsAllClear", "$bitsAnyClear":
			return bson.E{Key: op, Value: rapid.SampledFrom([]interface{}{int32(1), int32(3), int64(5), float64(2), bson.A{int32(0)}, bson.A{int32(0), int32(1)}, bson.A{int32(63)}, bson.A{int32(70)}, primitive.Binary{Data: []byte{3}}, int32(0), bson.A{}}).Draw(t, "mask")}
		case "$not":
			if depth <= 0 {
				return bson.E{Key: "$not", Value: bson.D{{Key: "$eq", Value: c.Operand().Draw(t, "no")}}}
			}
			n := rapid.IntRange(1, 2).Draw(t, "nn")
			d := bson.D{}
			for i := 0; i < n; i++ {
				d = append(d, c.OpExpr(depth-1).Draw(t, "ne"))
			}
			return bson.E{Key: "$not", Value: d}
		case "$elemMatch":
			if depth <= 0 || rapid.Bool().Draw(t, "emops") {
				n := rapid.IntRange(1, 2).Draw(t, "nn")
				d := bson.D{}
				for i := 0; i < n; i++ {
					cmp := rapid.SampledFrom([]string{"$eq", "$gt", "$lt", "$gte", "$lte", "$ne"}).Draw(t, "emop")
					d = append(d, bson.E{Key: cmp, Value: c.Scalar().Draw(t, "emv")})
				}
				return bson.E{Key: op, Value: d}
			}
			return bson.E{Key: op, Value: c.FieldPreds(depth-1, []string{"a", "b", "c", "a.b"}).Draw(t, "emq")}
		default:
			return bson.E{Key: op, Value: c.Operand().Draw(t, "o")}
		}
	})
}

func (c Cfg) FieldPreds(depth int, paths []string) *rapid.Generator[bson.D] {
	return rapid.Custom(func(t *rapid.T) bson.D {
		n := rapid.IntRange(1, 2).Draw(t, "np")
		d := bson.D{}
		for i := 0; i < n; i++ {
			p := c.PathFrom(t, paths)
			if rapid.IntRange(0, 3).Draw(t, "lit") == 0 {
				d = append(d, bson.E{Key: p, Value: c.Operand().Draw(t, "lit")})
				continue
			}
			m := rapid.IntRange(1, 2).Draw(t, "nops")
			ops := bson.D{}
			for j := 0; j < m; j++ {
				ops = append(ops, c.OpExpr(depth).Draw(t, "oe"))
			}
			d = append(d, bson.E{Key: p, Value: ops})
		}
		return d
	})
}

func (c Cfg) Filter(depth int) *rapid.Generator[bson.D] {
	return rapid.Custom(func(t *rapid.T) bson.D {
		k := rapid.IntRange(0, 9).Draw(t, "fk")
		if depth <= 0 || k < 6 {
			return c.FieldPreds(1, Paths).Draw(t, "fp")
		}
		op := rapid.SampledFrom([]string{"$and", "$or", "$nor"}).Draw(t, "lop")
		n := rapid.IntRange(1, 3).Draw(t, "ln")
		a := bson.A{}
		for i := 0; i < n; i++ {
			a = append(a, c.Filter(depth-1).Draw(t, "sub"))
		}
		d := bson.D{{Key: op, Value: a}}
		if rapid.IntRange(0, 3).Draw(t, "extra") == 0 {
			d = append(d, c.FieldPreds(1, Paths).Draw(t, "fp")...)
		}
		return d
	})
}
