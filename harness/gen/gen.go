// Package gen holds rapid generators for BSON values, documents and operator
// documents. Values come from a collision-rich pool so that equalities across
// types, numeric boundaries and shape clashes are frequent.
package gen

import (
	"math"

	"go.mongodb.org/mongo-driver/bson"
	"go.mongodb.org/mongo-driver/bson/primitive"
	"pgregory.net/rapid"
)

// D128 parses a decimal literal.
func D128(s string) primitive.Decimal128 {
	d, err := primitive.ParseDecimal128(s)
	if err != nil {
		panic(err)
	}
	return d
}

// OID1 and OID2 are adjacent object ids.
var OID1 = primitive.ObjectID{1, 2, 3, 4, 5, 6, 7, 8, 9, 10, 11, 12}
var OID2 = primitive.ObjectID{1, 2, 3, 4, 5, 6, 7, 8, 9, 10, 11, 13}

// IntPool: non-decimal numbers, collision rich across int32/int64/double.
var IntPool = []interface{}{
	int32(0), int32(1), int32(2), int32(3), int32(-1), int32(5), int32(math.MaxInt32), int32(math.MinInt32),
	int64(0), int64(1), int64(2), int64(3), int64(-1), int64(5), int64(1) << 53, int64(1)<<53 + 1, int64(math.MaxInt64), int64(math.MinInt64), int64(math.MaxInt32) + 1, int64(math.MaxInt64) - 1,
	float64(0), math.Copysign(0, -1), float64(1), float64(2), float64(3), float64(-1), 1.5, 2.5, 0.1, float64(5), float64(1 << 53), float64(1<<53) + 2, math.Pow(2, 63), -math.Pow(2, 63), 1e23, 1e300, -1e300, math.SmallestNonzeroFloat64, float64(math.MaxInt32) + 1,
}

// DecPool: Decimal128 values colliding with IntPool.
var DecPool = []interface{}{
	D128("0"), D128("1"), D128("2"), D128("3"), D128("-1"), D128("1.5"), D128("2.5"), D128("0.1"), D128("5"), D128("1.0"), D128("-0"), D128("9007199254740993"), D128("9007199254740992"), D128("9223372036854775807"), D128("9223372036854775808"), D128("-9223372036854775808"), D128("1E+23"), D128("1E+6000"), D128("-1E+6000"), D128("1E-6000"), D128("2147483648"),
}

// NonFiniteFloat / NonFiniteDec.
var NonFiniteFloat = []interface{}{math.NaN(), math.Inf(1), math.Inf(-1)}
var NonFiniteDec = []interface{}{D128("NaN"), D128("Infinity"), D128("-Infinity")}

// OtherPool: non-numeric scalars.
var OtherPool = []interface{}{
	nil, "", "a", "b", "ab", "1", true, false,
	primitive.DateTime(0), primitive.DateTime(1000), primitive.DateTime(-5),
	primitive.Timestamp{T: 1, I: 1}, primitive.Timestamp{T: 1, I: 2}, primitive.Timestamp{T: 2, I: 0},
	OID1, OID2,
	primitive.Binary{Subtype: 0, Data: []byte{}}, primitive.Binary{Subtype: 0, Data: []byte{1}}, primitive.Binary{Subtype: 4, Data: []byte{1}}, primitive.Binary{Subtype: 0, Data: []byte{1, 2}}, primitive.Binary{Subtype: 0, Data: []byte{255, 1}}, primitive.Binary{Subtype: 128, Data: []byte{0}},
}

// RegexPool.
var RegexPool = []interface{}{
	primitive.Regex{Pattern: "a", Options: ""}, primitive.Regex{Pattern: "a", Options: "i"}, primitive.Regex{Pattern: "b", Options: ""},
}

// Cfg states the value domain of a property.
type Cfg struct {
	NonFinite bool // NaN / ±Inf
	Decimal   bool // Decimal128 values
	Regex     bool
	Nested    bool // arrays directly inside arrays
	Random    bool // add numbers / strings drawn from bits (20 %)
	OddKeys   bool // "", "0", "1", "$x" keys in documents
	Extremes  bool // dates, timestamps and strings at the ends of their ranges
}

// ExtremePool: non-numeric scalars at the ends of their ranges (differences
// that overflow, unsigned fields with the top bit set, long common prefixes).
var ExtremePool = []interface{}{
	primitive.DateTime(math.MaxInt64), primitive.DateTime(math.MinInt64), primitive.DateTime(int64(1) << 62), primitive.DateTime(-(int64(1) << 62)), primitive.DateTime(-1), primitive.DateTime(1),
	primitive.Timestamp{T: math.MaxUint32, I: 0}, primitive.Timestamp{T: 0, I: math.MaxUint32}, primitive.Timestamp{T: 1 << 31, I: 1}, primitive.Timestamp{T: 1<<31 - 1, I: 1 << 31}, primitive.Timestamp{},
	"\x00", "a\x00", "a\x00b", "\xff", "\u00e9", "aaaaaaaaaaaaaaaaaaaaaaaaaaaaaaaaaaaaaaaab", "aaaaaaaaaaaaaaaaaaaaaaaaaaaaaaaaaaaaaaaac",
	primitive.ObjectID{}, primitive.ObjectID{0xff, 0xff, 0xff, 0xff, 0xff, 0xff, 0xff, 0xff, 0xff, 0xff, 0xff, 0xff}, primitive.ObjectID{0x80},
	primitive.Binary{Subtype: 255, Data: []byte{0}}, primitive.Binary{Subtype: 0, Data: []byte{0x80}}, primitive.Binary{Subtype: 0, Data: []byte{0x7f, 0xff}},
}

// Wide is the widest configuration.
var Wide = Cfg{NonFinite: true, Decimal: true, Regex: true, Nested: true, Random: true}

// Core is the agreement domain's configuration (section 8.1).
var Core = Cfg{NonFinite: true, Decimal: true, Random: true}

// Scalar draws a scalar.
func (c Cfg) Scalar() *rapid.Generator[interface{}] {
	return rapid.Custom(func(t *rapid.T) interface{} {
		k := rapid.IntRange(0, 19).Draw(t, "k")
		if c.Extremes && rapid.IntRange(0, 999).Draw(t, "xk")%10 == 5 {
			i := rapid.IntRange(0, 9999).Draw(t, "xi") % len(ExtremePool)
			return ExtremePool[i]
		}
		switch {
		case k <= 7:
			return rapid.SampledFrom(IntPool).Draw(t, "num")
		case k <= 9:
			if c.Decimal {
				return rapid.SampledFrom(DecPool).Draw(t, "dec")
			}
			return rapid.SampledFrom(IntPool).Draw(t, "num")
		case k == 10:
			if c.NonFinite {
				if c.Decimal && rapid.Bool().Draw(t, "nfd") {
					return rapid.SampledFrom(NonFiniteDec).Draw(t, "nf")
				}
				return rapid.SampledFrom(NonFiniteFloat).Draw(t, "nf")
			}
			return rapid.SampledFrom(IntPool).Draw(t, "num")
		case k == 11:
			if c.Regex {
				return rapid.SampledFrom(RegexPool).Draw(t, "re")
			}
			return rapid.SampledFrom(OtherPool).Draw(t, "other")
		case k <= 13 && c.Random:
			return c.randomScalar().Draw(t, "rnd")
		default:
			return rapid.SampledFrom(OtherPool).Draw(t, "other")
		}
	})
}

func (c Cfg) randomScalar() *rapid.Generator[interface{}] {
	return rapid.Custom(func(t *rapid.T) interface{} {
		switch rapid.IntRange(0, 6).Draw(t, "rk") {
		case 0:
			return rapid.Int32().Draw(t, "i32")
		case 1:
			return rapid.Int64().Draw(t, "i64")
		case 2:
			f := rapid.Float64().Draw(t, "f64")
			if !c.NonFinite && (math.IsNaN(f) || math.IsInf(f, 0)) {
				return float64(7)
			}
			return f
		case 3:
			if c.Decimal {
				hi := rapid.Uint64().Draw(t, "dh")
				lo := rapid.Uint64().Draw(t, "dl")
				d := primitive.NewDecimal128(hi, lo)
				if !c.NonFinite {
					if _, _, err := d.BigInt(); err != nil {
						return D128("7")
					}
				}
				return d
			}
			return rapid.Int64Range(-1000, 1000).Draw(t, "i64s")
		case 4:
			return rapid.StringN(0, 4, 8).Draw(t, "str")
		case 5:
			return primitive.DateTime(rapid.Int64Range(-100000, 100000).Draw(t, "dt"))
		default:
			b := primitive.Binary{Subtype: rapid.SampledFrom([]byte{0, 2, 4, 128}).Draw(t, "st"), Data: rapid.SliceOfN(rapid.Byte(), 0, 4).Draw(t, "bd")}
			if b.Subtype == 2 && len(b.Data) == 0 {
				// the driver's own codec does not round-trip an empty
				// old-style (subtype 2) binary: it comes back as 4 zero bytes
				b.Data = []byte{9}
			}
			return b
		}
	})
}

// Keys is the small key alphabet.
var Keys = []string{"a", "b", "c"}
var oddKeys = []string{"a", "b", "c", "d", "0", "1", "", "$x", "a.b"}

// Value generates a value with bounded depth.
func (c Cfg) Value(depth int, inArray bool) *rapid.Generator[interface{}] {
	return rapid.Custom(func(t *rapid.T) interface{} {
		k := rapid.IntRange(0, 9).Draw(t, "shape")
		if depth <= 0 || k < 5 {
			return c.Scalar().Draw(t, "s")
		}
		if k < 7 {
			return c.Doc(depth-1, 2).Draw(t, "d")
		}
		if inArray && !c.Nested {
			return c.Scalar().Draw(t, "s")
		}
		n := rapid.IntRange(0, 3).Draw(t, "n")
		a := bson.A{}
		for i := 0; i < n; i++ {
			a = append(a, c.Value(depth-1, true).Draw(t, "e"))
		}
		return a
	})
}

// Doc generates a document (no _id) with at most maxFields fields.
func (c Cfg) Doc(depth, maxFields int) *rapid.Generator[bson.D] {
	return rapid.Custom(func(t *rapid.T) bson.D {
		n := rapid.IntRange(0, maxFields).Draw(t, "nf")
		d := bson.D{}
		used := map[string]bool{}
		keys := Keys
		if c.OddKeys {
			keys = oddKeys
		}
		for i := 0; i < n; i++ {
			k := rapid.SampledFrom(keys).Draw(t, "key")
			if used[k] {
				continue
			}
			used[k] = true
			d = append(d, bson.E{Key: k, Value: c.Value(depth, false).Draw(t, "v")})
		}
		return d
	})
}

// Mutate returns a value derived from v: equal copy, late difference, prefix,
// type-swapped number. Used so deep values compare beyond the first element.
func (c Cfg) Mutate(v interface{}, t *rapid.T) interface{} {
	switch x := v.(type) {
	case bson.D:
		out := make(bson.D, len(x))
		copy(out, x)
		if len(out) == 0 {
			if rapid.Bool().Draw(t, "grow") {
				out = append(out, bson.E{Key: "a", Value: c.Scalar().Draw(t, "nv")})
			}
			return out
		}
		switch rapid.IntRange(0, 4).Draw(t, "dm") {
		case 0:
			return out
		case 1:
			return out[:len(out)-1]
		case 2:
			return append(out, bson.E{Key: "z", Value: c.Scalar().Draw(t, "nv")})
		case 3:
			i := len(out) - 1
			out[i] = bson.E{Key: out[i].Key, Value: c.Mutate(out[i].Value, t)}
			return out
		default:
			i := rapid.IntRange(0, len(out)-1).Draw(t, "di")
			out[i] = bson.E{Key: out[i].Key, Value: c.Mutate(out[i].Value, t)}
			return out
		}
	case bson.A:
		out := make(bson.A, len(x))
		copy(out, x)
		if len(out) == 0 {
			if rapid.Bool().Draw(t, "grow") {
				out = append(out, c.Scalar().Draw(t, "nv"))
			}
			return out
		}
		switch rapid.IntRange(0, 3).Draw(t, "am") {
		case 0:
			return out
		case 1:
			return out[:len(out)-1]
		case 2:
			return append(out, c.Scalar().Draw(t, "nv"))
		default:
			i := len(out) - 1
			out[i] = c.Mutate(out[i], t)
			return out
		}
	case int32:
		switch rapid.IntRange(0, 3).Draw(t, "nm") {
		case 0:
			return int64(x)
		case 1:
			return float64(x)
		case 2:
			if c.Decimal {
				return D128(itoa(int64(x)))
			}
			return x
		default:
			return x + 1
		}
	case int64:
		switch rapid.IntRange(0, 3).Draw(t, "nm") {
		case 0:
			return float64(x)
		case 1:
			if c.Decimal {
				return D128(itoa(x))
			}
			return x
		case 2:
			return x
		default:
			return x - 1
		}
	case float64:
		if x == math.Trunc(x) && math.Abs(x) < 1e15 {
			switch rapid.IntRange(0, 2).Draw(t, "nm") {
			case 0:
				return int64(x)
			case 1:
				if c.Decimal {
					return D128(itoa(int64(x)))
				}
			}
		}
		return x
	case string:
		if rapid.Bool().Draw(t, "sm") {
			return x + "a"
		}
		return x
	case primitive.Binary:
		if rapid.Bool().Draw(t, "bm") {
			return primitive.Binary{Subtype: x.Subtype + 1, Data: x.Data}
		}
		return primitive.Binary{Subtype: x.Subtype, Data: append(append([]byte{}, x.Data...), 0)}
	}
	if rapid.Bool().Draw(t, "same") {
		return v
	}
	return c.Scalar().Draw(t, "other")
}

func itoa(i int64) string {
	neg := i < 0
	var u uint64
	if neg {
		u = uint64(-(i + 1)) + 1
	} else {
		u = uint64(i)
	}
	if u == 0 {
		return "0"
	}
	var b []byte
	for u > 0 {
		b = append([]byte{byte('0' + u%10)}, b...)
		u /= 10
	}
	if neg {
		b = append([]byte{'-'}, b...)
	}
	return string(b)
}

// Number draws a numeric scalar of any of the enabled numeric types.
func (c Cfg) Number() *rapid.Generator[interface{}] {
	return rapid.Custom(func(t *rapid.T) interface{} {
		if c.Decimal && rapid.IntRange(0, 3).Draw(t, "nd") == 0 {
			return rapid.SampledFrom(DecPool).Draw(t, "dec")
		}
		return rapid.SampledFrom(IntPool).Draw(t, "num")
	})
}
