package gen

import (
	"math"

	"go.mongodb.org/mongo-driver/bson"
	"go.mongodb.org/mongo-driver/bson/primitive"
	"pgregory.net/rapid"
)

// Hostile generators: well-typed BSON, structurally odd. Operator arguments of
// the wrong type, empty keys and path components, '$' in odd places, huge and
// non-finite numbers, deep nesting, document / array / binary valued _id.

var hostileKeys = []string{"a", "b", "c", "", "0", "1", "-1", "$x", "$", "a.b", "a..b", ".", "_id", "$set", "$each", "$[", "$[]", "$[x]", "00", "9999999999999999999999"}

// HostilePaths are dotted paths with odd shapes.
var HostilePaths = []string{"a", "a.b", "a.0", "a.-1", "a..b", ".a", "a.", "", ".", "$", "a.$", "a.$[]", "a.$[x]", "a.$[x].b.$[y]", "a.$[", "$[].a", "a.00", "a.9999999999999999999999", "_id", "_id.x", "a.b.c.d.e.f", "0", "a.b.0.c", "b.1.a",
	// array indexes far beyond the end (never a few hundred thousand: padding that far is legal and only slow)
	"a.9223372036854775807", "a.4294967296", "a.2147483648", "a.1500099", "a.9223372036854775807.b", "a.0.4294967295", "b.18446744073709551615"}

var hostileScalars = []interface{}{
	math.NaN(), math.Inf(1), math.Inf(-1), math.Copysign(0, -1), math.MaxFloat64, -math.MaxFloat64, math.SmallestNonzeroFloat64, 0.5, -0.25, 1e-300, 1e19, -1e19, math.Pow(2, 63), -math.Pow(2, 63),
	int32(0), int32(-1), int32(math.MaxInt32), int32(math.MinInt32), int64(0), int64(math.MaxInt64), int64(math.MinInt64), int64(-1),
	D128("NaN"), D128("Infinity"), D128("-Infinity"), D128("0"), D128("-0"), D128("1E+6144"), D128("1E-6176"), D128("0.5"),
	"", "$", "$x", "a.b", "\x00", "1", "-1", nil, true, false,
	primitive.DateTime(math.MinInt64), primitive.DateTime(math.MaxInt64), primitive.Timestamp{}, primitive.Timestamp{T: math.MaxUint32, I: math.MaxUint32},
	primitive.ObjectID{}, primitive.Binary{}, primitive.Binary{Subtype: 255, Data: []byte{0xff, 0xff, 0xff, 0xff, 0xff, 0xff, 0xff, 0xff, 0xff}}, primitive.Regex{Pattern: "(", Options: "zz"}, primitive.Regex{Pattern: "a*", Options: "i"},
}

// HostileValue draws any value.
func HostileValue(depth int) *rapid.Generator[interface{}] {
	return rapid.Custom(func(t *rapid.T) interface{} {
		k := rapid.IntRange(0, 9).Draw(t, "hk")
		switch {
		case depth <= 0 || k <= 3:
			if rapid.Bool().Draw(t, "wide") {
				return Wide.Scalar().Draw(t, "ws")
			}
			return rapid.SampledFrom(hostileScalars).Draw(t, "hs")
		case k <= 6:
			return HostileDoc(depth-1).Draw(t, "hd")
		default:
			n := rapid.IntRange(0, 4).Draw(t, "hn")
			a := bson.A{}
			for i := 0; i < n; i++ {
				a = append(a, HostileValue(depth-1).Draw(t, "he"))
			}
			return a
		}
	})
}

// HostileDoc draws a document with odd keys (duplicates allowed).
func HostileDoc(depth int) *rapid.Generator[bson.D] {
	return rapid.Custom(func(t *rapid.T) bson.D {
		n := rapid.IntRange(0, 4).Draw(t, "hdn")
		d := bson.D{}
		for i := 0; i < n; i++ {
			if rapid.IntRange(0, 3).Draw(t, "plain") == 0 {
				// plain fields with numbers / arrays of numbers so that
				// operators get to their value logic
				var v interface{} = boundaryNumber().Draw(t, "pnum")
				switch rapid.IntRange(0, 5).Draw(t, "parr") {
				case 0:
					v = bson.A{v, boundaryNumber().Draw(t, "pnum2")}
				case 1:
					// binary data: the bit operators read it byte-wise
					v = primitive.Binary{Subtype: rapid.SampledFrom([]byte{0, 0, 4, 128}).Draw(t, "pbst"), Data: rapid.SliceOfN(rapid.Byte(), 0, 10).Draw(t, "pbin")}
				}
				d = append(d, bson.E{Key: rapid.SampledFrom(Keys).Draw(t, "pkey"), Value: v})
				continue
			}
			d = append(d, bson.E{Key: rapid.SampledFrom(hostileKeys).Draw(t, "hkey"), Value: HostileValue(depth).Draw(t, "hval")})
		}
		return d
	})
}

var queryOps = []string{"$eq", "$ne", "$gt", "$gte", "$lt", "$lte", "$in", "$nin", "$exists", "$type", "$size", "$all", "$elemMatch", "$mod", "$bitsAllSet", "$bitsAnySet", "$bitsAllClear", "$bitsAnyClear", "$not", "$and", "$or", "$nor", "$jsonSchema", "$regex", "$where", "$unknown"}

var schemaKeys = []string{"type", "bsonType", "required", "properties", "minimum", "maximum", "exclusiveMinimum", "enum", "minItems", "maxItems", "uniqueItems", "items", "additionalProperties", "allOf", "anyOf", "oneOf", "not", "pattern", "minLength", "maxLength", "multipleOf", "minProperties", "maxProperties", "patternProperties", "dependencies", "additionalItems", "title", "description"}

// boundaryNumbers are numeric operator arguments at and beyond the edges of
// what operators accept.
var boundaryNumbers = []interface{}{
	int32(0), int32(1), int32(-1), int32(2), int64(0), int64(1), int64(-1), int64(math.MaxInt64), int64(math.MinInt64), int32(math.MaxInt32), int32(math.MinInt32),
	float64(0), math.Copysign(0, -1), 0.5, -0.5, 0.25, -0.25, 0.999, 1e-300, -1e-300, 1.5, 2.0, -2.0, 63.0, 64.0, 65.0, 255.0, 256.0, 1e19, -1e19, math.Pow(2, 63), -math.Pow(2, 63), math.MaxFloat64, -math.MaxFloat64, math.NaN(), math.Inf(1), math.Inf(-1),
	D128("0"), D128("0.5"), D128("NaN"), D128("Infinity"), D128("2"),
}

func boundaryNumber() *rapid.Generator[interface{}] { return rapid.SampledFrom(boundaryNumbers) }

// NearValidExpr draws an operator expression that has the right shape for its
// operator but boundary values inside (zero / fractional / huge / non-finite
// divisors, sizes, bit positions, type codes, ...).
func NearValidExpr() *rapid.Generator[bson.E] {
	return rapid.Custom(func(t *rapid.T) bson.E {
		op := rapid.SampledFrom([]string{"$mod", "$mod", "$size", "$bitsAllSet", "$bitsAnySet", "$bitsAllClear", "$bitsAnyClear", "$type", "$in", "$all", "$elemMatch", "$exists", "$gt", "$lte", "$ne", "$not"}).Draw(t, "nvop")
		switch op {
		case "$mod":
			n := rapid.SampledFrom([]int{2, 2, 2, 2, 0, 1, 3}).Draw(t, "modn")
			a := bson.A{}
			for i := 0; i < n; i++ {
				a = append(a, boundaryNumber().Draw(t, "modv"))
			}
			return bson.E{Key: op, Value: a}
		case "$size":
			return bson.E{Key: op, Value: boundaryNumber().Draw(t, "sz")}
		case "$bitsAllSet", "$bitsAnySet", "$bitsAllClear", "$bitsAnyClear":
			switch rapid.IntRange(0, 2).Draw(t, "bk") {
			case 0:
				return bson.E{Key: op, Value: boundaryNumber().Draw(t, "mask")}
			case 1:
				a := bson.A{}
				for i, n := 0, rapid.IntRange(0, 3).Draw(t, "bn"); i < n; i++ {
					a = append(a, boundaryNumber().Draw(t, "bp"))
				}
				return bson.E{Key: op, Value: a}
			default:
				return bson.E{Key: op, Value: primitive.Binary{Data: rapid.SliceOfN(rapid.Byte(), 0, 12).Draw(t, "bin")}}
			}
		case "$type":
			if rapid.Bool().Draw(t, "tarr") {
				return bson.E{Key: op, Value: bson.A{boundaryNumber().Draw(t, "t1"), rapid.SampledFrom([]interface{}{"number", "", "bogus", "int"}).Draw(t, "t2")}}
			}
			return bson.E{Key: op, Value: boundaryNumber().Draw(t, "tn")}
		case "$in", "$all":
			a := bson.A{}
			for i, n := 0, rapid.IntRange(0, 3).Draw(t, "inn"); i < n; i++ {
				a = append(a, HostileValue(1).Draw(t, "inv"))
			}
			return bson.E{Key: op, Value: a}
		case "$elemMatch":
			return bson.E{Key: op, Value: bson.D{NearValidExpr().Draw(t, "em")}}
		case "$not":
			return bson.E{Key: op, Value: bson.D{NearValidExpr().Draw(t, "not")}}
		case "$exists":
			return bson.E{Key: op, Value: boundaryNumber().Draw(t, "ex")}
		default:
			return bson.E{Key: op, Value: boundaryNumber().Draw(t, "cmp")}
		}
	})
}

// HostileFilter draws a filter whose operators get arbitrary arguments.
func HostileFilter(depth int) *rapid.Generator[bson.D] {
	return rapid.Custom(func(t *rapid.T) bson.D {
		n := rapid.IntRange(0, 3).Draw(t, "fn")
		d := bson.D{}
		for i := 0; i < n; i++ {
			switch rapid.IntRange(0, 9).Draw(t, "fk") {
			case 0, 1:
				// top-level operator with arbitrary or recursive argument
				op := rapid.SampledFrom([]string{"$and", "$or", "$nor", "$jsonSchema", "$not", "$eq", "$unknown", "$where"}).Draw(t, "top")
				var arg interface{}
				if depth > 0 && rapid.Bool().Draw(t, "rec") {
					a := bson.A{}
					for j, m := 0, rapid.IntRange(0, 3).Draw(t, "an"); j < m; j++ {
						if rapid.IntRange(0, 4).Draw(t, "nd") == 0 {
							a = append(a, HostileValue(1).Draw(t, "nv"))
						} else {
							a = append(a, HostileFilter(depth-1).Draw(t, "sub"))
						}
					}
					arg = a
				} else if op == "$jsonSchema" {
					arg = HostileSchema(2).Draw(t, "schema")
				} else {
					arg = HostileValue(2).Draw(t, "arg")
				}
				d = append(d, bson.E{Key: op, Value: arg})
			case 2:
				d = append(d, bson.E{Key: rapid.SampledFrom(HostilePaths).Draw(t, "lp"), Value: HostileValue(2).Draw(t, "lit")})
			case 3, 4, 5:
				ops := bson.D{}
				for j, m := 0, rapid.IntRange(1, 2).Draw(t, "nvn"); j < m; j++ {
					ops = append(ops, NearValidExpr().Draw(t, "nv"))
				}
				if rapid.IntRange(0, 999).Draw(t, "tail")%4 == 1 {
					// an operator that holds for every document first, so
					// that evaluation reaches an odd key behind it
					ops = append(bson.D{{Key: "$ne", Value: "never-stored"}}, ops...)
					ops = append(ops, bson.E{Key: rapid.SampledFrom(oddOperatorKeys).Draw(t, "oddk"), Value: boundaryNumber().Draw(t, "oddv")})
				}
				d = append(d, bson.E{Key: rapid.SampledFrom([]string{"a", "b", "c", "a.b", "a.0", "_id"}).Draw(t, "nvp"), Value: ops})
			default:
				ops := bson.D{}
				for j, m := 0, rapid.IntRange(1, 3).Draw(t, "on"); j < m; j++ {
					op := rapid.SampledFrom(queryOps).Draw(t, "op")
					var arg interface{}
					switch rapid.IntRange(0, 5).Draw(t, "ak") {
					case 0:
						if depth > 0 {
							arg = HostileFilter(depth-1).Draw(t, "fa")
						} else {
							arg = HostileValue(1).Draw(t, "va")
						}
					case 1:
						arg = bson.A{HostileValue(1).Draw(t, "a1"), HostileValue(1).Draw(t, "a2")}
					default:
						arg = HostileValue(2).Draw(t, "va")
					}
					ops = append(ops, bson.E{Key: op, Value: arg})
				}
				d = append(d, bson.E{Key: rapid.SampledFrom(HostilePaths).Draw(t, "fp"), Value: ops})
			}
		}
		return d
	})
}

// oddOperatorKeys: keys that may follow a valid operator inside an operator
// document.
var oddOperatorKeys = []string{"", "", "x", "$", "$$", "$unknown", "\x00", "a.b", "$ne"}

// HostileSchema draws a $jsonSchema-like document.
func HostileSchema(depth int) *rapid.Generator[bson.D] {
	return rapid.Custom(func(t *rapid.T) bson.D {
		d := bson.D{}
		for i, n := 0, rapid.IntRange(0, 4).Draw(t, "sn"); i < n; i++ {
			k := rapid.SampledFrom(schemaKeys).Draw(t, "sk")
			var v interface{}
			switch rapid.IntRange(0, 4).Draw(t, "svk") {
			case 0:
				if depth > 0 {
					v = HostileSchema(depth-1).Draw(t, "ss")
				} else {
					v = HostileValue(1).Draw(t, "sv")
				}
			case 1:
				if depth > 0 {
					v = bson.A{HostileSchema(depth-1).Draw(t, "sa1"), HostileValue(1).Draw(t, "sa2")}
				} else {
					v = bson.A{}
				}
			case 2:
				v = rapid.SampledFrom([]interface{}{"string", "number", "object", "array", "null", "int", "bogus", bson.A{"string", "int"}, int32(-1), "a", bson.A{"a", "a"}}).Draw(t, "st")
			default:
				v = HostileValue(2).Draw(t, "sv")
			}
			d = append(d, bson.E{Key: k, Value: v})
		}
		return d
	})
}

var updateOpsHostile = append(append([]string{}, UpdateOps...), "$currentDate", "$unknown", "$", "set")

// HostileUpdate draws an update document with arbitrary arguments.
func HostileUpdate() *rapid.Generator[bson.D] {
	return rapid.Custom(func(t *rapid.T) bson.D {
		d := bson.D{}
		for i, n := 0, rapid.IntRange(0, 3).Draw(t, "un"); i < n; i++ {
			op := rapid.SampledFrom(updateOpsHostile).Draw(t, "uop")
			if rapid.IntRange(0, 5).Draw(t, "nondoc") == 0 {
				d = append(d, bson.E{Key: op, Value: HostileValue(1).Draw(t, "nd")})
				continue
			}
			fields := bson.D{}
			for j, m := 0, rapid.IntRange(0, 2).Draw(t, "fn"); j < m; j++ {
				var arg interface{}
				switch rapid.IntRange(0, 4).Draw(t, "ak") {
				case 0:
					arg = Wide.UpdateArg(op).Draw(t, "good")
				case 1:
					// modifier documents with odd contents
					md := bson.D{}
					for _, mk := range []string{"$each", "$position", "$slice", "$sort", "$type", "and", "or", "xor", "$bogus"} {
						if rapid.IntRange(0, 3).Draw(t, "mk") == 0 {
							switch {
							case mk == "$each" && rapid.Bool().Draw(t, "eacharr"):
								md = append(md, bson.E{Key: mk, Value: bson.A{boundaryNumber().Draw(t, "e1"), HostileValue(1).Draw(t, "e2")}})
							case rapid.Bool().Draw(t, "mbound"):
								md = append(md, bson.E{Key: mk, Value: boundaryNumber().Draw(t, "mb")})
							default:
								md = append(md, bson.E{Key: mk, Value: HostileValue(1).Draw(t, "mv")})
							}
						}
					}
					arg = md
				case 2:
					arg = boundaryNumber().Draw(t, "bnum")
				default:
					arg = HostileValue(2).Draw(t, "arg")
				}
				up := rapid.SampledFrom(HostilePaths).Draw(t, "up")
				if rapid.Bool().Draw(t, "plainpath") {
					up = rapid.SampledFrom([]string{"a", "b", "c", "a.b", "a.0", "a.1"}).Draw(t, "pp")
				}
				fields = append(fields, bson.E{Key: up, Value: arg})
			}
			d = append(d, bson.E{Key: op, Value: fields})
		}
		return d
	})
}

// HostileProjection draws a projection with arbitrary arguments.
func HostileProjection() *rapid.Generator[bson.D] {
	return rapid.Custom(func(t *rapid.T) bson.D {
		d := bson.D{}
		for i, n := 0, rapid.IntRange(0, 3).Draw(t, "pn"); i < n; i++ {
			var v interface{}
			switch rapid.IntRange(0, 5).Draw(t, "pk") {
			case 0:
				if rapid.Bool().Draw(t, "slb") {
					v = bson.D{{Key: "$slice", Value: boundaryNumber().Draw(t, "slbn")}}
				} else {
					v = bson.D{{Key: "$slice", Value: HostileValue(1).Draw(t, "sl")}}
				}
			case 1:
				v = bson.D{{Key: "$elemMatch", Value: HostileFilter(1).Draw(t, "em")}}
			case 2:
				v = bson.D{{Key: "$slice", Value: bson.A{boundaryNumber().Draw(t, "s1"), boundaryNumber().Draw(t, "s2")}}}
			case 3:
				v = rapid.SampledFrom([]interface{}{int32(1), int32(0), true, false, int64(1), float64(0)}).Draw(t, "flag")
			default:
				v = HostileValue(1).Draw(t, "pv")
			}
			if od, ok := v.(bson.D); ok && len(od) == 1 && rapid.IntRange(0, 999).Draw(t, "ptail")%4 == 1 {
				v = append(bson.D{od[0]}, bson.E{Key: rapid.SampledFrom(oddOperatorKeys).Draw(t, "poddk"), Value: int32(1)})
			}
			ppath := rapid.SampledFrom(HostilePaths).Draw(t, "pp")
			if rapid.Bool().Draw(t, "pplain") {
				ppath = rapid.SampledFrom([]string{"a", "b", "c", "a.b"}).Draw(t, "ppl")
			}
			d = append(d, bson.E{Key: ppath, Value: v})
		}
		return d
	})
}

// HostileSort draws a sort / index key document.
func HostileSort() *rapid.Generator[bson.D] {
	return rapid.Custom(func(t *rapid.T) bson.D {
		d := bson.D{}
		for i, n := 0, rapid.IntRange(0, 3).Draw(t, "sn"); i < n; i++ {
			var v interface{}
			if rapid.IntRange(0, 3).Draw(t, "sk") == 0 {
				v = HostileValue(1).Draw(t, "sv")
			} else {
				v = rapid.SampledFrom([]interface{}{int32(1), int32(-1), int64(1), float64(-1), int32(0), int32(2), math.NaN(), 1.5}).Draw(t, "sd")
			}
			d = append(d, bson.E{Key: rapid.SampledFrom(HostilePaths).Draw(t, "sp"), Value: v})
		}
		return d
	})
}
