package gen

import (
	"go.mongodb.org/mongo-driver/bson"
	"math"
	"pgregory.net/rapid"
)

// PPaths are projection paths (descending embedded documents; some cross
// arrays or overlap on purpose).
var PPaths = []string{"a", "b", "c", "d", "a.b", "a.c", "b.a", "a.b.c", "c.b", "_id", "ab", "a.bc"}

// Projection draws a projection document: inclusion / exclusion flags of
// several numeric and boolean types, _id handling, $slice and $elemMatch,
// occasionally mixed or overlapping.
func (c Cfg) Projection() *rapid.Generator[bson.D] {
	return rapid.Custom(func(t *rapid.T) bson.D {
		n := rapid.IntRange(1, 4).Draw(t, "np")
		mode := rapid.IntRange(0, 9).Draw(t, "mode") // 0-3 inclusion, 4-7 exclusion, 8-9 mixed
		d := bson.D{}
		used := map[string]bool{}
		for i := 0; i < n; i++ {
			p := c.PathFrom(t, PPaths)
			if used[p] {
				continue
			}
			used[p] = true
			k := rapid.IntRange(0, 9).Draw(t, "pk")
			switch {
			case k <= 5 || p == "_id":
				inc := mode <= 3
				if mode >= 8 {
					inc = rapid.Bool().Draw(t, "inc")
				}
				if p == "_id" {
					inc = rapid.Bool().Draw(t, "idinc")
				}
				var v interface{}
				if inc {
					v = rapid.SampledFrom([]interface{}{int32(1), int64(1), float64(1), true}).Draw(t, "iv")
				} else {
					v = rapid.SampledFrom([]interface{}{int32(0), int64(0), float64(0), false}).Draw(t, "ev")
				}
				if rapid.IntRange(0, 39).Draw(t, "odd") == 0 {
					v = rapid.SampledFrom([]interface{}{int32(2), "x", nil, float64(0.5), int32(-1)}).Draw(t, "oddv")
				}
				d = append(d, bson.E{Key: p, Value: v})
			case k <= 7:
				var arg interface{}
				if rapid.Bool().Draw(t, "pair") {
					arg = bson.A{rapid.SampledFrom([]interface{}{int32(0), int32(1), int32(2), int32(-1), int32(-2), int32(-5), int64(1), float64(1), int32(7)}).Draw(t, "sskip"), rapid.SampledFrom([]interface{}{int32(1), int32(2), int32(3), int64(1), float64(2), int32(0), int32(9)}).Draw(t, "slimit")}
				} else {
					arg = rapid.SampledFrom([]interface{}{int32(0), int32(1), int32(2), int32(-1), int32(-2), int32(5), int32(-5), int64(1), float64(-1)}).Draw(t, "sn")
				}
				if rapid.IntRange(0, 999).Draw(t, "sliceExtreme")%12 == 5 {
					// counts at the edges of the integer types and beyond
					if _, pair := arg.(bson.A); pair {
						arg = rapid.SampledFrom([]interface{}{
							bson.A{int32(1), int64(math.MaxInt64)}, bson.A{int64(math.MaxInt64), int64(math.MaxInt64)}, bson.A{int32(-1), int64(math.MaxInt64)},
							bson.A{int64(math.MinInt64), int32(1)}, bson.A{int32(0), float64(1e300)}, bson.A{math.Inf(-1), int32(2)}, bson.A{int64(math.MinInt32) - 1, int64(math.MaxInt32) + 1},
						}).Draw(t, "sextp")
					} else {
						arg = rapid.SampledFrom([]interface{}{
							int64(math.MinInt64), int64(math.MaxInt64), math.Inf(-1), math.Inf(1), float64(-1e308), float64(-9.3e18), int64(math.MinInt32) - 1, int64(math.MaxInt32) + 1, int64(math.MinInt64) + 1,
						}).Draw(t, "sext")
					}
				}
				d = append(d, bson.E{Key: p, Value: bson.D{{Key: "$slice", Value: arg}}})
			default:
				var q bson.D
				if rapid.Bool().Draw(t, "emop") {
					q = bson.D{{Key: rapid.SampledFrom([]string{"$gt", "$gte", "$lt", "$eq", "$ne", "$in"}).Draw(t, "emo"), Value: c.Scalar().Draw(t, "emv")}}
					if q[0].Key == "$in" {
						q[0].Value = bson.A{q[0].Value, c.Scalar().Draw(t, "emv2")}
					}
				} else {
					q = bson.D{{Key: rapid.SampledFrom(Keys).Draw(t, "emk"), Value: c.Operand().Draw(t, "emfv")}}
				}
				d = append(d, bson.E{Key: p, Value: bson.D{{Key: "$elemMatch", Value: q}}})
			}
		}
		if len(d) == 0 {
			d = bson.D{{Key: "a", Value: int32(1)}}
		}
		return d
	})
}
