package gen

import (
	"go.mongodb.org/mongo-driver/bson"
	"pgregory.net/rapid"
)

// Schema draws a well-formed $jsonSchema document over the key alphabet
// (a, b, c, ab): every keyword of the supported set with arguments of the
// right shape, nested to the given depth. Values for enum / minimum / maximum
// come from the scalar pools (so they collide with generated documents).
func (c Cfg) Schema(depth int) *rapid.Generator[bson.D] {
	return rapid.Custom(func(t *rapid.T) bson.D {
		n := rapid.IntRange(1, 3).Draw(t, "nkw")
		d := bson.D{}
		used := map[string]bool{}
		kws := []string{"bsonType", "type", "enum", "minimum", "maximum", "multipleOf", "minLength", "maxLength", "pattern", "required", "minProperties", "maxProperties", "properties", "properties", "patternProperties", "additionalProperties", "dependencies", "items", "additionalItems", "minItems", "maxItems", "uniqueItems", "allOf", "anyOf", "oneOf", "not"}
		if depth <= 0 {
			kws = kws[:12]
		}
		keys := []string{"a", "b", "c", "ab", "_id"}
		subSchema := func(label string) bson.D { return c.Schema(depth-1).Draw(t, label) }
		for i := 0; i < n; i++ {
			kw := rapid.SampledFrom(kws).Draw(t, "kw")
			if used[kw] || (kw == "type" && used["bsonType"]) || (kw == "bsonType" && used["type"]) {
				continue
			}
			used[kw] = true
			switch kw {
			case "bsonType":
				names := []string{"double", "string", "object", "array", "binData", "objectId", "bool", "date", "null", "regex", "int", "timestamp", "long", "decimal", "number"}
				if rapid.Bool().Draw(t, "btarr") {
					d = append(d, bson.E{Key: kw, Value: bson.A{rapid.SampledFrom(names).Draw(t, "bt1"), rapid.SampledFrom(names).Draw(t, "bt2")}})
				} else {
					d = append(d, bson.E{Key: kw, Value: rapid.SampledFrom(names).Draw(t, "bt")})
				}
			case "type":
				names := []string{"object", "array", "string", "number", "boolean", "null"}
				if rapid.Bool().Draw(t, "tarr") {
					d = append(d, bson.E{Key: kw, Value: bson.A{rapid.SampledFrom(names).Draw(t, "t1"), rapid.SampledFrom(names).Draw(t, "t2")}})
				} else {
					d = append(d, bson.E{Key: kw, Value: rapid.SampledFrom(names).Draw(t, "t")})
				}
			case "enum":
				a := bson.A{}
				for j, m := 0, rapid.IntRange(1, 3).Draw(t, "nenum"); j < m; j++ {
					a = append(a, c.Value(1, false).Draw(t, "ev"))
				}
				d = append(d, bson.E{Key: kw, Value: a})
			case "minimum", "maximum":
				d = append(d, bson.E{Key: kw, Value: c.Number().Draw(t, "bound")})
				if rapid.IntRange(0, 2).Draw(t, "excl") == 0 {
					ex := "exclusiveMinimum"
					if kw == "maximum" {
						ex = "exclusiveMaximum"
					}
					d = append(d, bson.E{Key: ex, Value: rapid.Bool().Draw(t, "exv")})
				}
			case "multipleOf":
				d = append(d, bson.E{Key: kw, Value: rapid.SampledFrom([]interface{}{int32(1), int32(2), int32(3), int64(2), int32(5)}).Draw(t, "mo")})
			case "minLength", "maxLength", "minProperties", "maxProperties", "minItems", "maxItems":
				d = append(d, bson.E{Key: kw, Value: rapid.SampledFrom([]interface{}{int32(0), int32(1), int32(2), int64(1), int64(2), int32(3)}).Draw(t, "cnt")})
			case "pattern":
				d = append(d, bson.E{Key: kw, Value: rapid.SampledFrom([]string{"^a", "b$", "a", "^$", "^ab?$", "1", "x|y"}).Draw(t, "pat")})
			case "required":
				a := bson.A{}
				for j, m := 0, rapid.IntRange(1, 2).Draw(t, "nreq"); j < m; j++ {
					a = append(a, rapid.SampledFrom(keys).Draw(t, "req"))
				}
				d = append(d, bson.E{Key: kw, Value: a})
			case "properties":
				p := bson.D{}
				seen := map[string]bool{}
				for j, m := 0, rapid.IntRange(1, 2).Draw(t, "nprop"); j < m; j++ {
					k := rapid.SampledFrom(keys).Draw(t, "pk")
					if seen[k] {
						continue
					}
					seen[k] = true
					p = append(p, bson.E{Key: k, Value: subSchema("ps")})
				}
				d = append(d, bson.E{Key: kw, Value: p})
			case "patternProperties":
				d = append(d, bson.E{Key: kw, Value: bson.D{{Key: rapid.SampledFrom([]string{"^a", "b$", "^c$", "^_", "."}).Draw(t, "ppk"), Value: subSchema("pps")}}})
			case "additionalProperties":
				if rapid.Bool().Draw(t, "apb") {
					d = append(d, bson.E{Key: kw, Value: rapid.Bool().Draw(t, "apv")})
				} else {
					d = append(d, bson.E{Key: kw, Value: subSchema("aps")})
				}
			case "dependencies":
				k := rapid.SampledFrom(keys).Draw(t, "dk")
				if rapid.Bool().Draw(t, "darr") {
					d = append(d, bson.E{Key: kw, Value: bson.D{{Key: k, Value: bson.A{rapid.SampledFrom(keys).Draw(t, "dv")}}}})
				} else {
					d = append(d, bson.E{Key: kw, Value: bson.D{{Key: k, Value: subSchema("ds")}}})
				}
			case "items":
				if rapid.Bool().Draw(t, "itarr") {
					a := bson.A{}
					for j, m := 0, rapid.IntRange(1, 2).Draw(t, "nit"); j < m; j++ {
						a = append(a, subSchema("its"))
					}
					d = append(d, bson.E{Key: kw, Value: a})
				} else {
					d = append(d, bson.E{Key: kw, Value: subSchema("it")})
				}
			case "additionalItems":
				if rapid.Bool().Draw(t, "aib") {
					d = append(d, bson.E{Key: kw, Value: rapid.Bool().Draw(t, "aiv")})
				} else {
					d = append(d, bson.E{Key: kw, Value: subSchema("ais")})
				}
			case "uniqueItems":
				d = append(d, bson.E{Key: kw, Value: rapid.Bool().Draw(t, "uq")})
			case "allOf", "anyOf", "oneOf":
				a := bson.A{}
				for j, m := 0, rapid.IntRange(1, 3).Draw(t, "nsub"); j < m; j++ {
					a = append(a, subSchema("cs"))
				}
				d = append(d, bson.E{Key: kw, Value: a})
			case "not":
				d = append(d, bson.E{Key: kw, Value: subSchema("ns")})
			}
		}
		if len(d) == 0 {
			d = bson.D{{Key: "bsonType", Value: "object"}}
		}
		return d
	})
}
