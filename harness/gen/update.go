package gen

import (
	"go.mongodb.org/mongo-driver/bson"
	"pgregory.net/rapid"
)

var UPaths = []string{"a", "b", "c", "d", "a.b", "a.c", "b.a", "a.0", "a.1", "a.5", "a.b.c", "a.0.b", "b.1.a", "c.b", "ab", "a.bc"}

var UpdateOps = []string{"$set", "$unset", "$inc", "$mul", "$min", "$max", "$pop", "$pull", "$pullAll", "$addToSet", "$push", "$bit", "$rename", "$setOnInsert"}

func (c Cfg) UpdateArg(op string) *rapid.Generator[interface{}] {
	return rapid.Custom(func(t *rapid.T) interface{} {
		switch op {
		case "$set", "$setOnInsert", "$min", "$max":
			return c.Value(1, false).Draw(t, "v")
		case "$unset":
			return rapid.Just[interface{}]("").Draw(t, "u")
		case "$inc", "$mul":
			if rapid.IntRange(0, 9).Draw(t, "bad") == 0 {
				return "x"
			}
			return c.Number().Draw(t, "n")
		case "$pop":
			return rapid.SampledFrom([]interface{}{int32(1), int32(-1), int64(1), float64(-1), int32(2), "x"}).Draw(t, "p")
		case "$pull":
			k := rapid.IntRange(0, 3).Draw(t, "pk")
			switch k {
			case 0:
				return bson.D{{Key: rapid.SampledFrom([]string{"$gt", "$gte", "$lt", "$in", "$ne"}).Draw(t, "pop"), Value: func() interface{} {
					return c.Scalar().Draw(t, "pv")
				}()}}
			case 1:
				return bson.D{{Key: rapid.SampledFrom(Keys).Draw(t, "pf"), Value: c.Scalar().Draw(t, "pv")}}
			}
			return c.Scalar().Draw(t, "pv")
		case "$pullAll":
			n := rapid.IntRange(0, 3).Draw(t, "n")
			a := bson.A{}
			for i := 0; i < n; i++ {
				a = append(a, c.Value(1, true).Draw(t, "e"))
			}
			return a
		case "$addToSet":
			if rapid.Bool().Draw(t, "each") {
				n := rapid.IntRange(0, 3).Draw(t, "n")
				a := bson.A{}
				for i := 0; i < n; i++ {
					a = append(a, c.Value(1, true).Draw(t, "e"))
				}
				return bson.D{{Key: "$each", Value: a}}
			}
			return c.Value(1, true).Draw(t, "v")
		case "$push":
			if rapid.IntRange(0, 2).Draw(t, "each") > 0 {
				n := rapid.IntRange(0, 3).Draw(t, "n")
				a := bson.A{}
				docs := rapid.Bool().Draw(t, "docs")
				for i := 0; i < n; i++ {
					if docs {
						a = append(a, c.Doc(0, 2).Draw(t, "e"))
					} else {
						a = append(a, c.Scalar().Draw(t, "e"))
					}
				}
				d := bson.D{{Key: "$each", Value: a}}
				if rapid.Bool().Draw(t, "pos") {
					d = append(d, bson.E{Key: "$position", Value: rapid.SampledFrom([]interface{}{int32(0), int32(1), int32(-1), int64(5), int32(-7), float64(2)}).Draw(t, "posv")})
				}
				if rapid.Bool().Draw(t, "sort") {
					if docs {
						d = append(d, bson.E{Key: "$sort", Value: bson.D{{Key: rapid.SampledFrom(Keys).Draw(t, "sk"), Value: rapid.SampledFrom([]interface{}{int32(1), int32(-1)}).Draw(t, "sd")}}})
					} else {
						d = append(d, bson.E{Key: "$sort", Value: rapid.SampledFrom([]interface{}{int32(1), int32(-1), int64(1), float64(-1)}).Draw(t, "sd")})
					}
				}
				if rapid.Bool().Draw(t, "slice") {
					d = append(d, bson.E{Key: "$slice", Value: rapid.SampledFrom([]interface{}{int32(0), int32(1), int32(2), int32(-1), int32(-2), int64(10)}).Draw(t, "sl")})
				}
				return d
			}
			return c.Value(1, true).Draw(t, "v")
		case "$bit":
			return bson.D{{Key: rapid.SampledFrom([]string{"and", "or", "xor", "nand"}).Draw(t, "bop"), Value: rapid.SampledFrom([]interface{}{int32(1), int32(6), int64(5), int32(-1), float64(1)}).Draw(t, "bv")}}
		case "$rename":
			return rapid.SampledFrom([]string{"a", "b", "c", "d", "e", "a.b", "b.c", "d.e"}).Draw(t, "to")
		}
		return rapid.Just[interface{}](nil).Draw(t, "nil")
	})
}
