package props

import (
	"fmt"
	"sort"
	"strings"
	"testing"

	"github.com/256dpi/lungo"
	"go.mongodb.org/mongo-driver/bson"
	"go.mongodb.org/mongo-driver/bson/primitive"

	"verifharness/gen"
	"verifharness/ref"
)

// C01: every call of a sequential history returns what the reference model
// returns and leaves every collection equal to the model's.

type oracleModel struct {
	m        *ref.Model
	steps    int
	resyncs  int
	compared int
	multi    int // calls that matched >= 2 documents or upserted
	kinds    map[string]bool
}

func newOracleModel() *oracleModel { return &oracleModel{m: ref.NewModel(), kinds: map[string]bool{}} }

func (o *oracleModel) before(r *hRun, step bson.D) error { return nil }

func modelFromCatalog(cat *lungo.Catalog) *ref.Model {
	m := ref.NewModel()
	for _, h := range nsList(cat) {
		c := cat.Namespaces[h]
		mc := &ref.MColl{Indexes: map[string]ref.MIndex{}}
		for _, d := range c.Documents.List {
			mc.Docs = append(mc.Docs, deepCopyBin(*d).(bson.D))
		}
		for n, ix := range c.Indexes {
			cfg := ix.Config()
			mi := ref.MIndex{Key: *cfg.Key, Unique: cfg.Unique}
			if cfg.Partial != nil {
				mi.Partial = *cfg.Partial
			}
			if cfg.Expiry != 0 {
				secs := int32(cfg.Expiry / 1e9)
				mi.TTL = secs
			}
			mc.Indexes[n] = mi
		}
		m.Colls[h.String()] = mc
	}
	return m
}

// certainConflict: {$set: {p: "fresh-..", q: "fresh-.."}} where one path is
// an ancestor of the other.
func certainConflict(upd bson.D) bool {
	if len(upd) != 1 || upd[0].Key != "$set" {
		return false
	}
	f := asD(upd[0].Value)
	if len(f) != 2 {
		return false
	}
	for _, e := range f {
		if s, ok := e.Value.(string); !ok || !strings.HasPrefix(s, "fresh-") {
			return false
		}
	}
	a, b := f[0].Key, f[1].Key
	return strings.HasPrefix(a, b+".") || strings.HasPrefix(b, a+".")
}

func isObjectID(v interface{}) bool { _, ok := v.(primitive.ObjectID); return ok }

func sameValue(a, b interface{}) bool {
	return string(marshal(bson.D{{Key: "v", Value: a}})) == string(marshal(bson.D{{Key: "v", Value: b}}))
}

func indexDefOf(m bson.D) (string, ref.MIndex) {
	def := ref.MIndex{Key: asD(getD(m, "keys")), Unique: asB(getD(m, "unique"))}
	if p := optD(m, "partial"); len(p) > 0 {
		// lungo treats the empty filter like no filter (also when it compares
		// definitions)
		def.Partial = p
	}
	if v := getD(m, "ttl"); v != nil {
		def.TTL = int32(asI(v))
	}
	return asS(getD(m, "name")), def
}

// modelStep computes the model's result for a step. genID is the id lungo
// generated (for documents without _id).
func (o *oracleModel) modelStep(step, lres bson.D) (ref.Res, ref.Status) {
	m := o.m
	op := asS(getD(step, "op"))
	ns := asS(getD(step, "ns"))
	switch op {
	case "insertOne":
		return m.Insert(ns, asD(getD(step, "doc")), getD(lres, "id"))
	case "insertMany":
		var res ref.Res
		res.IDs = bson.A{}
		for _, d := range asA(getD(step, "docs")) {
			r, st := m.Insert(ns, asD(d), nil)
			if st != ref.OK {
				return ref.Res{}, st
			}
			if r.Err != "" {
				if res.Err == "" {
					res.Err = r.Err
				}
				if asB(getD(step, "ordered")) {
					break
				}
				continue
			}
			res.IDs = append(res.IDs, r.ID)
		}
		return res, ref.OK
	case "find":
		return m.Find(ns, asD(getD(step, "filter")), optD(step, "sort"), optD(step, "proj"), asI(getD(step, "skip")), asI(getD(step, "limit")))
	case "findOne":
		r, st := m.Find(ns, asD(getD(step, "filter")), optD(step, "sort"), optD(step, "proj"), asI(getD(step, "skip")), 1)
		if st == ref.OK && r.Err == "" {
			if len(r.Docs) == 0 {
				r.None = true
			} else {
				r.Doc = r.Docs[0]
			}
			r.Docs = nil
		}
		return r, st
	case "count":
		return m.Count(ns, asD(getD(step, "filter")), asI(getD(step, "skip")), asI(getD(step, "limit")))
	case "estCount":
		return m.EstCount(ns), ref.OK
	case "distinct":
		return m.Distinct(ns, asS(getD(step, "field")), asD(getD(step, "filter")))
	case "updateOne", "updateMany", "updateByID":
		a := ref.UpdateArgs{Filter: asD(getD(step, "filter")), Update: asD(getD(step, "update")), ArrayFilters: toFilters(asA(getD(step, "arrayFilters"))), Upsert: asB(getD(step, "upsert")), Many: op == "updateMany"}
		if op == "updateByID" {
			// like the official driver, a nil id is rejected (mongo.ErrNilValue)
			if getD(step, "id") == nil {
				return ref.Res{Err: "other"}, ref.OK
			}
			a.Filter = bson.D{{Key: "_id", Value: getD(step, "id")}}
		}
		if id := getD(lres, "upsertedID"); isObjectID(id) {
			a.GenID = id
		}
		if certainConflict(a.Update) {
			// a path and its ancestor are both set to fresh values: whenever
			// the update is applied to a document (a match, or an upsert) it
			// is rejected as a whole
			n, st := m.Count(ns, a.Filter, 0, 0)
			if st != ref.OK {
				return ref.Res{}, st
			}
			if n.N >= 1 || a.Upsert {
				return ref.Res{Err: "other"}, ref.OK
			}
			return ref.Res{}, ref.Outside
		}
		r, _, _, st := m.Update(ns, a)
		return r, st
	case "replaceOne":
		a := ref.ReplaceArgs{Filter: asD(getD(step, "filter")), Repl: asD(getD(step, "repl")), Upsert: asB(getD(step, "upsert"))}
		if id := getD(lres, "upsertedID"); isObjectID(id) {
			a.GenID = id
		}
		r, _, _, st := m.Replace(ns, a)
		return r, st
	case "deleteOne", "deleteMany":
		r, _, st := m.Delete(ns, asD(getD(step, "filter")), nil, op == "deleteMany")
		return r, st
	case "findOneAndDelete":
		// validate the projection first: a rejected projection fails the call
		r, d, st := m.Delete(ns, asD(getD(step, "filter")), optD(step, "sort"), false)
		if st != ref.OK {
			return r, st
		}
		return projectSingle(r, d, optD(step, "proj"))
	case "findOneAndReplace":
		a := ref.ReplaceArgs{Filter: asD(getD(step, "filter")), Repl: asD(getD(step, "repl")), Sort: optD(step, "sort"), Upsert: asB(getD(step, "upsert"))}
		if d := asD(getD(lres, "doc")); d != nil && isObjectID(getD(d, "_id")) {
			a.GenID = getD(d, "_id")
		}
		r, before, after, st := m.Replace(ns, a)
		if st != ref.OK || r.Err != "" {
			return r, st
		}
		d := before
		if asB(getD(step, "after")) {
			d = after
		}
		return projectSingle(r, d, optD(step, "proj"))
	case "findOneAndUpdate":
		a := ref.UpdateArgs{Filter: asD(getD(step, "filter")), Update: asD(getD(step, "update")), Sort: optD(step, "sort"), ArrayFilters: toFilters(asA(getD(step, "arrayFilters"))), Upsert: asB(getD(step, "upsert"))}
		if d := asD(getD(lres, "doc")); d != nil && isObjectID(getD(d, "_id")) {
			a.GenID = getD(d, "_id")
		}
		r, before, after, st := m.Update(ns, a)
		if st != ref.OK || r.Err != "" {
			return r, st
		}
		d := before
		if asB(getD(step, "after")) {
			d = after
		}
		return projectSingle(r, d, optD(step, "proj"))
	case "createIndex":
		name, def := indexDefOf(step)
		return m.CreateIndex(ns, name, def)
	case "createIndexes":
		var res ref.Res
		for _, im := range asA(getD(step, "models")) {
			name, def := indexDefOf(asD(im))
			r, st := m.CreateIndex(ns, name, def)
			if st != ref.OK {
				return r, st
			}
			if r.Err != "" {
				res.Err = r.Err
				break
			}
			res.Names = append(res.Names, r.Name)
		}
		return res, ref.OK
	case "dropIndex":
		return m.DropIndex(ns, asS(getD(step, "name"))), ref.OK
	case "dropIndexKey":
		return m.DropIndexKey(ns, asD(getD(step, "keys"))), ref.OK
	case "dropIndexes":
		return m.DropIndexes(ns), ref.OK
	case "listIndexes":
		return ref.Res{Names: m.IndexNames(ns)}, ref.OK
	case "createColl":
		return m.CreateColl(ns)
	case "dropColl":
		return m.DropColl(ns), ref.OK
	case "dropDB":
		return m.DropDB(asS(getD(step, "db"))), ref.OK
	case "listColls":
		return ref.Res{Names: m.ListColls(asS(getD(step, "db")))}, ref.OK
	case "listDBs":
		return ref.Res{Names: m.ListDBs()}, ref.OK
	case "bulkWrite":
		return o.modelBulk(step, lres)
	}
	return ref.Res{}, ref.Outside
}

func projectSingle(r ref.Res, d, proj bson.D) (ref.Res, ref.Status) {
	if d == nil {
		r.None = true
		return r, ref.OK
	}
	if proj != nil {
		p, err := ref.Project(d, proj)
		if err != nil {
			// the write already happened in the model; a rejected or
			// unmodelled projection makes the step incomparable
			return r, ref.Outside
		}
		r.ProjUnordered = true
		d = p
	}
	r.Doc = d
	return r, ref.OK
}

func (o *oracleModel) modelBulk(step, lres bson.D) (ref.Res, ref.Status) {
	m := o.m
	ns := asS(getD(step, "ns"))
	ordered := asB(getD(step, "ordered"))
	var res ref.Res
	res.UpsertedIDs = map[int]interface{}{}
	lups := asD(getD(lres, "upsertedIDs"))
	for i, mm := range asA(getD(step, "models")) {
		md := asD(mm)
		var r ref.Res
		var st ref.Status
		genID := getD(lups, fmt.Sprint(i))
		if !isObjectID(genID) {
			genID = nil
		}
		switch asS(getD(md, "kind")) {
		case "insertOne":
			r, st = m.Insert(ns, asD(getD(md, "doc")), nil)
			if st == ref.OK && r.Err == "" {
				res.Inserted++
			}
		case "replaceOne":
			r, _, _, st = m.Replace(ns, ref.ReplaceArgs{Filter: asD(getD(md, "filter")), Repl: asD(getD(md, "repl")), Upsert: asB(getD(md, "upsert")), GenID: genID})
		case "updateOne", "updateMany":
			r, _, _, st = m.Update(ns, ref.UpdateArgs{Filter: asD(getD(md, "filter")), Update: asD(getD(md, "update")), ArrayFilters: toFilters(asA(getD(md, "arrayFilters"))), Upsert: asB(getD(md, "upsert")), Many: asS(getD(md, "kind")) == "updateMany", GenID: genID})
		case "deleteOne", "deleteMany":
			r, _, st = m.Delete(ns, asD(getD(md, "filter")), nil, asS(getD(md, "kind")) == "deleteMany")
		}
		if st != ref.OK {
			return ref.Res{}, st
		}
		if r.Err != "" {
			res.Err = "other"
			res.FailedIdx = append(res.FailedIdx, i)
			if ordered {
				break
			}
			continue
		}
		res.Matched += r.Matched
		res.Modified += r.Modified
		res.Deleted += r.Deleted
		res.Upserted += r.Upserted
		if r.HasUpsertID {
			res.UpsertedIDs[i] = r.UpsertedID
		}
	}
	return res, ref.OK
}

// hasKey reports whether a key occurs anywhere in a value.
func hasKey(v interface{}, key string) bool {
	switch x := v.(type) {
	case bson.D:
		for _, e := range x {
			if e.Key == key || hasKey(e.Value, key) {
				return true
			}
		}
	case bson.A:
		for _, e := range x {
			if hasKey(e, key) {
				return true
			}
		}
	}
	return false
}

func docListEqual(got bson.A, want []bson.D, unordered bool) bool {
	if len(got) != len(want) {
		return false
	}
	for i := range want {
		g := asD(got[i])
		if unordered {
			if !equalUpToFieldOrder(g, want[i]) {
				return false
			}
		} else if !bytesEq(g, want[i]) {
			return false
		}
	}
	return true
}

func namesOf(v interface{}) []string {
	var out []string
	for _, n := range asA(v) {
		out = append(out, asS(n))
	}
	return out
}

func (o *oracleModel) after(r *hRun, step, lres bson.D) error {
	o.steps++
	op := asS(getD(step, "op"))
	mres, st := o.modelStep(step, lres)
	if st != ref.OK {
		o.resyncs++
		r.x.Class("resync:" + op)
		o.m = modelFromCatalog(r.env.engine.Catalog())
		return nil
	}
	o.compared++
	r.x.Class("compared:" + op)
	relaxOrder := hasKey(step, "$rename")
	if relaxOrder {
		mres.ProjUnordered = true
	}
	lerr := asS(getD(lres, "err"))
	if lerr != mres.Err {
		// bulk writes report "other" for a uniqueness failure inside the batch
		if !(op == "bulkWrite" && lerr != "" && mres.Err != "") {
			return fmt.Errorf("lungo reports error class %q, the model %q", lerr, mres.Err)
		}
	}
	fail := func(what string, got, want interface{}) error {
		return fmt.Errorf("%s: lungo returned %s, the model %s", what, show(got), show(want))
	}
	if lerr == "" || op == "insertMany" || op == "bulkWrite" || op == "createIndexes" {
		switch op {
		case "insertOne":
			if mres.GeneratedID {
				if !isObjectID(getD(lres, "id")) {
					return fmt.Errorf("generated _id is not an ObjectID: %s", show(getD(lres, "id")))
				}
			} else if !sameValue(getD(lres, "id"), mres.ID) {
				return fail("InsertedID", getD(lres, "id"), mres.ID)
			}
		case "insertMany":
			lids := asA(getD(lres, "ids"))
			if len(lids) != len(mres.IDs) || (len(lids) > 0 && !sameValue(lids, mres.IDs)) {
				return fail("InsertedIDs", lids, mres.IDs)
			}
		case "find":
			if !docListEqual(asA(getD(lres, "docs")), mres.Docs, mres.ProjUnordered) {
				return fail("Find result", getD(lres, "docs"), docsToA(mres.Docs))
			}
			if len(mres.Docs) >= 2 {
				o.multi++
			}
		case "findOne", "findOneAndDelete", "findOneAndReplace", "findOneAndUpdate":
			ld := asD(getD(lres, "doc"))
			if mres.None != asB(getD(lres, "none")) {
				return fail("single result presence", lres, mres.Doc)
			}
			if !mres.None {
				if mres.ProjUnordered {
					if !equalUpToFieldOrder(ld, mres.Doc) {
						return fail("returned document", ld, mres.Doc)
					}
				} else if !bytesEq(ld, mres.Doc) {
					return fail("returned document", ld, mres.Doc)
				}
			}
		case "count", "estCount":
			if asI64(getD(lres, "n")) != mres.N {
				return fail("count", getD(lres, "n"), mres.N)
			}
		case "distinct":
			lv := asA(getD(lres, "values"))
			for i := 0; i+1 < len(lv); i++ {
				if ref.Cmp(lv[i], lv[i+1]) >= 0 {
					return fmt.Errorf("Distinct not strictly ascending: %s", show(lv))
				}
			}
			for _, v := range mres.Values {
				found := false
				for _, w := range lv {
					if ref.Cmp(v, w) == 0 {
						found = true
					}
				}
				if !found {
					return fail("Distinct misses a value", lv, mres.Values)
				}
			}
			for _, w := range lv {
				found := false
				for _, v := range mres.Values {
					if ref.Cmp(v, w) == 0 {
						found = true
					}
				}
				if !found {
					return fail("Distinct invented a value", lv, mres.Values)
				}
			}
		case "updateOne", "updateMany", "updateByID", "replaceOne":
			if asI64(getD(lres, "matched")) != mres.Matched || asI64(getD(lres, "modified")) != mres.Modified || asI64(getD(lres, "upserted")) != mres.Upserted {
				return fmt.Errorf("update counts: lungo %s, the model matched=%d modified=%d upserted=%d", show(lres), mres.Matched, mres.Modified, mres.Upserted)
			}
			if mres.HasUpsertID && !mres.GeneratedID && !sameValue(getD(lres, "upsertedID"), mres.UpsertedID) {
				return fail("UpsertedID", getD(lres, "upsertedID"), mres.UpsertedID)
			}
			if mres.Matched >= 2 || mres.Upserted > 0 {
				o.multi++
			}
		case "deleteOne", "deleteMany":
			if asI64(getD(lres, "deleted")) != mres.Deleted {
				return fail("DeletedCount", getD(lres, "deleted"), mres.Deleted)
			}
			if mres.Deleted >= 2 {
				o.multi++
			}
		case "bulkWrite":
			if getD(lres, "inserted") != nil {
				if asI64(getD(lres, "inserted")) != mres.Inserted || asI64(getD(lres, "matched")) != mres.Matched || asI64(getD(lres, "modified")) != mres.Modified || asI64(getD(lres, "deleted")) != mres.Deleted || asI64(getD(lres, "upserted")) != mres.Upserted {
					return fmt.Errorf("bulk counts: lungo %s, the model inserted=%d matched=%d modified=%d deleted=%d upserted=%d", show(lres), mres.Inserted, mres.Matched, mres.Modified, mres.Deleted, mres.Upserted)
				}
			}
			var gotIdx []int
			for _, f := range asA(getD(lres, "failed")) {
				gotIdx = append(gotIdx, asI(getD(asD(f), "i")))
			}
			if fmt.Sprint(gotIdx) != fmt.Sprint(mres.FailedIdx) {
				return fmt.Errorf("bulk failed items: lungo %v, the model %v", gotIdx, mres.FailedIdx)
			}
		case "createIndex":
			if asS(getD(lres, "name")) != mres.Name {
				return fail("index name", getD(lres, "name"), mres.Name)
			}
		case "createIndexes":
			if fmt.Sprint(namesOf(getD(lres, "names"))) != fmt.Sprint(mres.Names) {
				return fail("index names", getD(lres, "names"), mres.Names)
			}
		case "listIndexes":
			var got []string
			for _, s := range asA(getD(lres, "specs")) {
				got = append(got, asS(getD(asD(s), "name")))
			}
			sort.Strings(got)
			if fmt.Sprint(got) != fmt.Sprint(mres.Names) {
				return fail("listed indexes", got, mres.Names)
			}
		case "listColls", "listDBs":
			if fmt.Sprint(namesOf(getD(lres, "names"))) != fmt.Sprint(mres.Names) {
				return fail("names", getD(lres, "names"), mres.Names)
			}
		}
	}
	if isWriteOp(op) && lerr == "" {
		o.kinds[op] = true
	}
	// contents of every collection equal the model's
	cat := r.env.engine.Catalog()
	seen := map[string]bool{}
	for _, h := range nsList(cat) {
		ns := h.String()
		seen[ns] = true
		mc := o.m.Colls[ns]
		if mc == nil {
			return fmt.Errorf("collection %s exists in lungo but not in the model", ns)
		}
		docs := cat.Namespaces[h].Documents.List
		if len(docs) != len(mc.Docs) {
			return fmt.Errorf("collection %s holds %d documents, the model %d", ns, len(docs), len(mc.Docs))
		}
		for i, d := range docs {
			// adopt ids lungo generated where the model could not observe them
			if mid, ok := getD(mc.Docs[i], "_id").(primitive.ObjectID); ok && o.m.Generated[mid] && isObjectID(getD(*d, "_id")) {
				delete(o.m.Generated, mid)
				mc.Docs[i][0].Value = getD(*d, "_id")
			}
			if !bytesEq(*d, mc.Docs[i]) && relaxOrder && equalUpToFieldOrder(*d, mc.Docs[i]) {
				// the position of a $rename target is version dependent
				// (DESIGN.md 8.2): adopt lungo's field order
				mc.Docs[i] = deepCopyBin(*d).(bson.D)
			}
			if !bytesEq(*d, mc.Docs[i]) {
				return fmt.Errorf("collection %s position %d holds %s, the model %s", ns, i, show(*d), show(mc.Docs[i]))
			}
		}
		var names []string
		for n := range cat.Namespaces[h].Indexes {
			names = append(names, n)
		}
		sort.Strings(names)
		if fmt.Sprint(names) != fmt.Sprint(o.m.IndexNames(ns)) {
			return fmt.Errorf("collection %s has indexes %v, the model %v", ns, names, o.m.IndexNames(ns))
		}
	}
	for ns := range o.m.Colls {
		if !seen[ns] {
			return fmt.Errorf("collection %s exists in the model but not in lungo", ns)
		}
	}
	return nil
}

func (o *oracleModel) finish(r *hRun) error { return nil }

var profCrud = &hProfile{name: "crud", cfg: gen.Core, weights: map[string]int{
	"insertOne": 12, "insertMany": 5, "find": 8, "findOne": 4, "count": 3, "estCount": 1, "distinct": 3,
	"updateOne": 7, "updateMany": 7, "updateByID": 2, "replaceOne": 5, "deleteOne": 3, "deleteMany": 2,
	"findOneAndDelete": 3, "findOneAndReplace": 3, "findOneAndUpdate": 4, "bulkWrite": 5,
	"createIndex": 3, "createIndexes": 1, "dropIndex": 1, "dropIndexKey": 1, "dropIndexes": 1, "listIndexes": 1,
	"createColl": 1, "dropColl": 1, "dropDB": 1, "listColls": 1, "listDBs": 1,
}, nss: allNS, docGen: defaultDocGen, idPool: simpleIDs, tinyVals: collideVals, bigInserts: true}

var propC01 = regHistory("C01", "history", profCrud, func() []hOracle { return []hOracle{newOracleModel()} }, 10, 40, func(r *hRun) bool {
	o := r.oracles[0].(*oracleModel)
	eff := 0
	for _, n := range r.effectiveWrites {
		eff += n
	}
	return eff >= 3 && len(o.kinds) >= 2 && o.multi >= 1 && o.steps > 0 && float64(o.resyncs) <= 0.3*float64(o.steps)
})

func TestProp_C01_history(t *testing.T) { propC01.Check(t) }
