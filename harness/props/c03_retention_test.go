package props

import (
	"context"
	"fmt"
	"testing"

	"github.com/256dpi/lungo"
	"go.mongodb.org/mongo-driver/bson"
	"go.mongodb.org/mongo-driver/mongo/options"
	"pgregory.net/rapid"
)

// C03 retention: snapshots survive the trimming of the change log. A file
// backed engine performs a few writes, the stored change log is moved two
// hours into the past and the engine reopened with tight retention, so that
// the next commit - of whatever kind, including commits that write no event
// themselves (index builds and drops, collection creation) - discards old
// events. Every snapshot taken before (an Engine.Catalog(), a read-only
// transaction, an open cursor over the change log) must keep returning
// byte-identical results.

var c03RetentionOps = []string{"createIndex", "createIndex", "dropIndex", "createColl", "insertOne", "updateOne", "deleteOne", "dropColl", "txnAborted", "expire"}

func genC03Retention(t *rapid.T) bson.D {
	n := rapid.IntRange(3, 9).Draw(t, "writes")
	pre := bson.A{}
	for i := 0; i < n; i++ {
		pre = append(pre, bson.D{{Key: "op", Value: "insertOne"}, {Key: "ns", Value: rapid.SampledFrom([]string{"d1.c1", "d1.c1", "d1.c2"}).Draw(t, "ns")}, {Key: "doc", Value: bson.D{{Key: "_id", Value: int32(i)}, {Key: "a", Value: int32(i % 3)}}}})
	}
	if rapid.Bool().Draw(t, "preindex") {
		pre = append(pre, bson.D{{Key: "op", Value: "createIndex"}, {Key: "ns", Value: "d1.c1"}, {Key: "keys", Value: bson.D{{Key: "a", Value: int32(1)}}}})
	}
	post := bson.A{}
	for i, m := 0, rapid.IntRange(1, 4).Draw(t, "commits"); i < m; i++ {
		op := rapid.SampledFrom(c03RetentionOps).Draw(t, "op")
		st := bson.D{{Key: "op", Value: op}, {Key: "ns", Value: rapid.SampledFrom([]string{"d1.c1", "d1.c2", "d1.c3"}).Draw(t, "pns")}}
		switch op {
		case "createIndex":
			st = append(st, bson.E{Key: "keys", Value: bson.D{{Key: rapid.SampledFrom([]string{"a", "b", "c"}).Draw(t, "ik"), Value: int32(1)}}})
		case "dropIndex":
			st = append(st, bson.E{Key: "name", Value: rapid.SampledFrom([]string{"a_1", "b_1"}).Draw(t, "dn")})
		case "insertOne":
			st = append(st, bson.E{Key: "doc", Value: bson.D{{Key: "_id", Value: int32(100 + i)}}})
		case "updateOne":
			st = append(st, bson.E{Key: "filter", Value: bson.D{}}, bson.E{Key: "update", Value: bson.D{{Key: "$inc", Value: bson.D{{Key: "n", Value: int32(1)}}}}}, bson.E{Key: "upsert", Value: false})
		case "deleteOne":
			st = append(st, bson.E{Key: "filter", Value: bson.D{}})
		case "txnAborted":
			st = append(st, bson.E{Key: "what", Value: rapid.SampledFrom([]string{"dropColl", "create", "deleteAll"}).Draw(t, "aw")})
		}
		post = append(post, st)
	}
	return bson.D{{Key: "pre", Value: pre}, {Key: "post", Value: post}}
}

func runC03Retention(c bson.D, x *Ctx) (err error) {
	defer func() {
		if p := recover(); p != nil {
			err = fmt.Errorf("panic: %v", p)
		}
	}()
	env, e := openFile()
	if e != nil {
		return fmt.Errorf("harness: %v", e)
	}
	defer env.close()
	for _, sv := range asA(getD(c, "pre")) {
		if _, perr := env.execStep(asD(sv)); perr != nil {
			return fmt.Errorf("harness: %v", perr)
		}
	}
	if e := env.age(); e != nil {
		return fmt.Errorf("harness: ageing the change log failed: %v", e)
	}
	// snapshots
	cat := env.engine.Catalog()
	catDump := catalogDump(cat, false)
	oplogBefore := len(cat.Namespaces[lungo.Oplog].Documents.List)
	rtxn, e := env.engine.Begin(context.Background(), false)
	if e != nil {
		return fmt.Errorf("harness: %v", e)
	}
	rtxnDump := catalogDump(rtxn.Catalog(), false)
	cur, e := env.client.Database(lungo.Oplog[0]).Collection(lungo.Oplog[1]).Find(context.Background(), bson.D{}, options.Find())
	if e != nil {
		return fmt.Errorf("harness: cursor over the change log: %v", e)
	}
	curWant, e := findDocs(env.client.Database(lungo.Oplog[0]).Collection(lungo.Oplog[1]), bson.D{})
	if e != nil {
		return fmt.Errorf("harness: %v", e)
	}
	trimmed := false
	for i, sv := range asA(getD(c, "post")) {
		res, perr := env.execStep(asD(sv))
		if perr != nil {
			return perr
		}
		now := len(env.engine.Catalog().Namespaces[lungo.Oplog].Documents.List)
		if now < oplogBefore {
			trimmed = true
			if asS(getD(res, "err")) == "" {
				switch asS(getD(asD(sv), "op")) {
				case "createIndex", "dropIndex", "createColl":
					x.Class("trimmed-by-a-commit-without-events")
				}
			}
		}
		if d := catalogDump(cat, false); d != catDump {
			return fmt.Errorf("commit %d (%s -> %s) changed a catalog obtained earlier:\n--- when taken\n%s--- now\n%s", i+1, show(sv), show(res), catDump, d)
		}
		if d := catalogDump(rtxn.Catalog(), false); d != rtxnDump {
			return fmt.Errorf("commit %d (%s -> %s) changed what a read-only transaction opened earlier sees:\n--- when opened\n%s--- now\n%s", i+1, show(sv), show(res), rtxnDump, d)
		}
	}
	env.engine.Abort(rtxn)
	var got []bson.D
	if e := cur.All(context.Background(), &got); e != nil {
		return fmt.Errorf("reading the cursor opened before the commits failed: %v", e)
	}
	if len(got) != len(curWant) {
		return fmt.Errorf("the cursor opened before the commits returns %d change-log events, it held %d", len(got), len(curWant))
	}
	for i := range got {
		if !bytesEq(got[i], curWant[i]) {
			return fmt.Errorf("the cursor opened before the commits returns a different event %d", i)
		}
	}
	if trimmed {
		x.Class("change-log-trimmed")
		x.NonTrivial()
	}
	return nil
}

var propC03Retention = Register(&Prop{ID: "C03", Sub: "retention", Gen: genC03Retention, Run: runC03Retention})

func TestProp_C03_retention(t *testing.T) { propC03Retention.Check(t) }
