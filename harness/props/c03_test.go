package props

import (
	"context"
	"errors"
	"fmt"
	"strings"
	"testing"
	"time"

	"github.com/256dpi/lungo"
	"go.mongodb.org/mongo-driver/bson"
	"go.mongodb.org/mongo-driver/bson/primitive"
	"pgregory.net/rapid"

	"verifharness/gen"
)

// C03: transactions are all-or-nothing, read-your-writes holds inside them,
// and every snapshot a reader holds stays byte-identical.
//
// The main engine runs sessions; a shadow engine E2 (plain, no sessions) holds
// what must be visible to everybody (committed state), and while a transaction
// is open a second shadow engine E3 = E2 + the transaction's writes holds what
// the session itself must see. Shadow engines execute lungo's own sequential
// code, so the oracle does not depend on the reference model.

type faultyStore struct {
	inner    lungo.Store
	failNext bool
	fails    int
}

func (f *faultyStore) Load() (*lungo.Catalog, error) { return f.inner.Load() }
func (f *faultyStore) Store(c *lungo.Catalog) error {
	if f.failNext {
		f.failNext = false
		f.fails++
		return errors.New("injected store failure")
	}
	return f.inner.Store(c)
}

type c03Snapshot struct {
	kind    string
	cat     *lungo.Catalog     // readTxn / catalog
	txn     *lungo.Transaction // readTxn
	dump    string
	cursor  lungo.ICursor // cursor
	expect  []bson.D
	takenAt int
}

type c03Run struct {
	x         *Ctx
	main      *hEnv
	store     *faultyStore
	committed *lungo.Catalog // what every client must see (adopted from the engine whenever no transaction is open)
	e3        *hEnv          // session view while a transaction is open
	sessions  []lungo.ISession
	ended     []bool
	open      int // session index with an open transaction, -1 if none
	txnWrites int
	txnLog    []bson.D // effective writes of the open transaction (for shadow rebuilds)
	snaps     []*c03Snapshot
	effWrites int
	// NT counters
	committed2, dropped2 int
	survived             bool
}

func newC03Run(x *Ctx) (*c03Run, error) {
	st := &faultyStore{inner: lungo.NewMemoryStore()}
	client, engine, err := lungo.Open(context.Background(), lungo.Options{Store: st, ExpireInterval: 24 * time.Hour})
	if err != nil {
		return nil, err
	}
	r := &c03Run{x: x, main: &hEnv{client: client, engine: engine}, store: st, open: -1}
	r.committed = engine.Catalog()
	for i := 0; i < 2; i++ {
		s, err := client.StartSession()
		if err != nil {
			return nil, err
		}
		r.sessions = append(r.sessions, s)
		r.ended = append(r.ended, false)
	}
	return r, nil
}

func (r *c03Run) close() {
	r.main.close()
	if r.e3 != nil {
		r.e3.close()
	}
}

func normResult(res bson.D) bson.D {
	return normOIDs(res, map[primitive.ObjectID]primitive.ObjectID{}).(bson.D)
}

// inSession executes a step on the main engine through session k.
func (r *c03Run) inSession(k int, step bson.D) (res bson.D, err error) {
	e := lungo.WithSession(context.Background(), r.sessions[k], func(sc lungo.ISessionContext) error {
		r.main.ctx = sc
		defer func() { r.main.ctx = nil }()
		res, err = r.main.execStep(step)
		return nil
	})
	if e != nil {
		return nil, e
	}
	return res, err
}

func (r *c03Run) checkVisible(what string) error {
	got := catalogDump(r.main.engine.Catalog(), true)
	want := catalogDump(r.committed, true)
	if got != want {
		return fmt.Errorf("%s: the state visible to other clients differs from the committed state:\n--- visible\n%s--- committed (shadow)\n%s", what, got, want)
	}
	return nil
}

func (r *c03Run) checkSnapshots(step int) error {
	for i, s := range r.snaps {
		switch s.kind {
		case "catalog", "readTxn":
			cat := s.cat
			if s.txn != nil {
				cat = s.txn.Catalog()
			}
			if d := catalogDump(cat, false); d != s.dump {
				return fmt.Errorf("snapshot %d (%s, taken at step %d) changed after step %d:\n--- at creation\n%s--- now\n%s", i, s.kind, s.takenAt, step, s.dump, d)
			}
		}
	}
	return nil
}

func (r *c03Run) finishSnapshots() error {
	for i, s := range r.snaps {
		if s.kind != "cursor" {
			continue
		}
		var docs []bson.D
		if err := s.cursor.All(context.Background(), &docs); err != nil {
			return fmt.Errorf("snapshot cursor %d failed: %v", i, err)
		}
		if len(docs) != len(s.expect) {
			return fmt.Errorf("open cursor %d (taken at step %d) returns %d documents, it held %d when it was opened", i, s.takenAt, len(docs), len(s.expect))
		}
		for j := range docs {
			if !bytesEq(docs[j], s.expect[j]) {
				return fmt.Errorf("open cursor %d (taken at step %d) returns %s at position %d, it held %s when it was opened", i, s.takenAt, show(docs[j]), j, show(s.expect[j]))
			}
		}
	}
	return nil
}

// step kinds: plain | sess.start | sess.op | sess.commit | sess.abort | sess.end | sess.with | store.fail | snap
func (r *c03Run) do(n int, step bson.D) error {
	kind := asS(getD(step, "kind"))
	k := asI(getD(step, "sess"))
	inner := asD(getD(step, "step"))
	switch kind {
	case "plain":
		op := asS(getD(inner, "op"))
		if isWriteOp(op) && r.open >= 0 {
			// the writer slot is taken: the call must fail cleanly under a
			// short deadline and change nothing
			ctx, cancel := context.WithTimeout(context.Background(), 15*time.Millisecond)
			r.main.ctx = ctx
			res, err := r.main.execStep(inner)
			r.main.ctx = nil
			cancel()
			if err != nil {
				return err
			}
			if asS(getD(res, "err")) == "" && effective(res) {
				return fmt.Errorf("a non-transactional write completed while session %d holds an open write transaction: %s", r.open, show(res))
			}
			r.x.Class("write-blocked-by-open-transaction")
			return r.checkVisible("blocked write")
		}
		failing := r.store.failNext && isWriteOp(op)
		res, err := r.main.execStep(inner)
		if err != nil {
			return err
		}
		if failing && r.store.fails > 0 && r.store.failNext == false {
			// the store rejected the commit: the call must report it
			if asS(getD(res, "err")) == "" && effective(res) {
				return fmt.Errorf("the store failed but the write reported success: %s", show(res))
			}
			r.x.Class("plain-write-store-failure")
			return r.checkVisible("plain write with failing store")
		}
		if r.open >= 0 {
			// a read next to an open transaction sees the committed state only
			return r.checkVisible("plain read next to an open transaction")
		}
		if isWriteOp(op) && asS(getD(res, "err")) == "" && effective(res) {
			r.effWrites++
		}
		r.committed = r.main.engine.Catalog()
		return nil
	case "sess.start":
		err := r.sessions[k].StartTransaction()
		if r.ended[k] {
			if err == nil {
				return fmt.Errorf("StartTransaction on an ended session succeeded")
			}
			return nil
		}
		if r.open == k {
			if err == nil {
				return fmt.Errorf("a second StartTransaction on the same session succeeded")
			}
			return nil
		}
		if err != nil {
			return fmt.Errorf("StartTransaction failed: %v", err)
		}
		r.open = k
		r.txnWrites = 0
		var e error
		r.e3, e = openFrom(r.committed)
		if e != nil {
			return fmt.Errorf("harness: %v", e)
		}
		return r.checkVisible("start transaction")
	case "sess.op":
		var before int64 = -1
		if s, ok := r.sessions[k].(*lungo.Session); ok && r.open == k && s.Transaction() != nil {
			before = totalDocs(s.Transaction().Catalog())
		}
		res, err := r.inSession(k, inner)
		if err != nil {
			return err
		}
		// conservation, independent of the shadow engine: the transaction
		// holds as many more (fewer) documents as the call reports inserted,
		// upserted (deleted)
		if s, ok := r.sessions[k].(*lungo.Session); ok && before >= 0 && r.open == k && s.Transaction() != nil {
			if d, known := expectedDocDelta(asS(getD(inner, "op")), res); known {
				if after := totalDocs(s.Transaction().Catalog()); after-before != d {
					return fmt.Errorf("inside the transaction %s returned %s but the transaction now holds %+d documents (it reports %+d)", show(inner), show(res), after-before, d)
				}
			}
		}
		if r.open == k {
			res3, err := r.e3.execStep(inner)
			if err != nil {
				return fmt.Errorf("harness: shadow: %v", err)
			}
			op := asS(getD(inner, "op"))
			directBegin := op == "createIndex" || op == "createIndexes" || op == "dropIndex" || op == "dropIndexKey" || op == "dropIndexes" || op == "createColl" || op == "dropColl" || op == "dropDB"
			if directBegin {
				// these calls open their own write transaction and are
				// rejected inside a session transaction: undo the shadow
				if asS(getD(res, "err")) == "" {
					return fmt.Errorf("%s inside a session transaction succeeded", op)
				}
				r.e3.close()
				var e error
				r.e3, e = r.rebuildE3()
				if e != nil {
					return e
				}
			} else if !equalUpToFieldOrder(normResult(res), normResult(res3)) {
				return fmt.Errorf("inside the transaction %s returned %s; with read-your-writes it returns %s", show(inner), show(res), show(res3))
			} else if isWriteOp(op) {
				if asS(getD(res, "err")) == "" && effective(res) {
					r.txnWrites++
				}
				// every write call is replayed when the shadow is rebuilt (a
				// failing unordered batch may have applied some of its items)
				r.txnLog = append(r.txnLog, inner)
			}
			// the session sees its own writes
			if got, want := r.sessionDump(k), catalogDump(r.e3.engine.Catalog(), true); got != want {
				return fmt.Errorf("the transaction's own view differs from committed state + its writes:\n--- session view\n%s--- expected\n%s", got, want)
			}
		} else {
			// no transaction on this session: behaves like a plain call
			if r.open < 0 {
				r.committed = r.main.engine.Catalog()
				return nil
			}
		}
		return r.checkVisible("call inside a session")
	case "sess.commit":
		failing := r.store.failNext
		dirty := false
		if s, ok := r.sessions[k].(*lungo.Session); ok && s.Transaction() != nil {
			dirty = s.Transaction().Dirty()
		}
		err := r.sessions[k].CommitTransaction(context.Background())
		if r.open != k {
			if err == nil {
				return fmt.Errorf("CommitTransaction without a transaction succeeded")
			}
			return r.checkVisible("commit without transaction")
		}
		r.open = -1
		if failing && dirty {
			if err == nil {
				return fmt.Errorf("the store failed but CommitTransaction reported success")
			}
			r.x.Class("commit-failed-in-store")
			if r.txnWrites >= 2 {
				r.dropped2++
			}
			r.e3.close()
			r.e3 = nil
			r.txnLog = nil
			return r.checkVisible("failed commit")
		}
		if err != nil {
			return fmt.Errorf("CommitTransaction failed: %v", err)
		}
		if r.txnWrites >= 2 {
			r.committed2++
		}
		r.effWrites += r.txnWrites
		// everything the transaction wrote becomes visible together
		if got, want := catalogDump(r.main.engine.Catalog(), true), catalogDump(r.e3.engine.Catalog(), true); got != want {
			return fmt.Errorf("after the commit the visible state differs from committed state + the transaction's writes:\n--- visible\n%s--- expected\n%s", got, want)
		}
		r.e3.close()
		r.e3 = nil
		r.txnLog = nil
		r.committed = r.main.engine.Catalog()
		r.x.Class("transaction-committed")
		return nil
	case "sess.abort", "sess.end":
		if kind == "sess.abort" {
			err := r.sessions[k].AbortTransaction(context.Background())
			if r.ended[k] != (err != nil) {
				return fmt.Errorf("AbortTransaction returned %v (session ended: %v)", err, r.ended[k])
			}
		} else {
			r.sessions[k].EndSession(context.Background())
			r.ended[k] = true
		}
		if r.open == k {
			r.open = -1
			if r.txnWrites >= 2 {
				r.dropped2++
			}
			r.e3.close()
			r.e3 = nil
			r.txnLog = nil
			r.x.Class("transaction-dropped")
		}
		return r.checkVisible(kind)
	case "sess.with":
		if r.open >= 0 || r.ended[k] {
			return nil
		}
		outcome := asS(getD(step, "outcome"))
		steps := asA(getD(step, "steps"))
		e3, e := openFrom(r.committed)
		if e != nil {
			return fmt.Errorf("harness: %v", e)
		}
		writes := 0
		var inErr error
		failing := r.store.failNext
		dirty := false
		var werr error
		func() {
			defer func() {
				if p := recover(); p != nil {
					if fmt.Sprint(p) != "callback panic" {
						inErr = fmt.Errorf("WithTransaction panicked: %v", p)
					}
				}
			}()
			_, werr = r.sessions[k].WithTransaction(context.Background(), func(sc lungo.ISessionContext) (interface{}, error) {
				for _, s := range steps {
					r.main.ctx = sc
					res, err := r.main.execStep(asD(s))
					r.main.ctx = nil
					if err != nil {
						inErr = err
						return nil, err
					}
					switch asS(getD(asD(s), "op")) {
					case "createIndex", "createIndexes", "dropIndex", "dropIndexKey", "dropIndexes", "createColl", "dropColl", "dropDB":
						// catalog calls are rejected inside the transaction
						// and leave it alone
						if asS(getD(res, "err")) == "" {
							inErr = fmt.Errorf("%s inside WithTransaction succeeded", show(s))
							return nil, inErr
						}
						continue
					}
					res3, err := e3.execStep(asD(s))
					if err != nil {
						inErr = fmt.Errorf("harness: shadow: %v", err)
						return nil, inErr
					}
					if !equalUpToFieldOrder(normResult(res), normResult(res3)) {
						inErr = fmt.Errorf("inside WithTransaction %s returned %s; with read-your-writes it returns %s", show(s), show(res), show(res3))
						return nil, inErr
					}
					if isWriteOp(asS(getD(asD(s), "op"))) && asS(getD(res, "err")) == "" && effective(res) {
						writes++
					}
				}
				// whether the commit reaches the store is decided by the
				// transaction itself: a find-and-modify that found a document
				// but changed nothing is "effective" by its result yet leaves
				// the transaction clean
				if s, ok := r.sessions[k].(*lungo.Session); ok && s.Transaction() != nil {
					dirty = s.Transaction().Dirty()
					if dirty && writes == 0 {
						writes = 1 // a partially applied batch
					}
				}
				switch outcome {
				case "error":
					return nil, errors.New("callback error")
				case "panic":
					panic("callback panic")
				}
				return "ok", nil
			})
		}()
		if inErr != nil {
			e3.close()
			return inErr
		}
		committed := outcome == "ok" && !(failing && dirty)
		if outcome == "ok" && failing && dirty && werr == nil {
			e3.close()
			return fmt.Errorf("the store failed but WithTransaction reported success")
		}
		if outcome == "ok" && !(failing && dirty) && werr != nil {
			e3.close()
			return fmt.Errorf("WithTransaction failed: %v", werr)
		}
		if committed {
			got, want := catalogDump(r.main.engine.Catalog(), true), catalogDump(e3.engine.Catalog(), true)
			e3.close()
			if got != want {
				return fmt.Errorf("after WithTransaction the visible state differs from committed state + the callback's writes:\n--- visible\n%s--- expected\n%s", got, want)
			}
			r.committed = r.main.engine.Catalog()
			r.effWrites += writes
			if writes >= 2 {
				r.committed2++
			}
			r.x.Class("with-transaction-committed")
			return nil
		} else {
			e3.close()
			if writes >= 2 {
				r.dropped2++
			}
			r.x.Class("with-transaction-" + outcome)
		}
		return r.checkVisible("WithTransaction " + outcome)
	case "store.fail":
		r.store.failNext = true
		return nil
	case "snap":
		what := asS(getD(step, "what"))
		s := &c03Snapshot{kind: what, takenAt: n}
		switch what {
		case "catalog":
			s.cat = r.main.engine.Catalog()
			s.dump = catalogDump(s.cat, false)
		case "readTxn":
			txn, err := r.main.engine.Begin(context.Background(), false)
			if err != nil {
				return fmt.Errorf("read-only Begin failed: %v", err)
			}
			s.txn = txn
			s.dump = catalogDump(txn.Catalog(), false)
		case "cursor":
			ns := asS(getD(step, "ns"))
			exp, err := findDocs(r.main.coll(ns), bson.D{})
			if err != nil {
				return err
			}
			cur, err := r.main.coll(ns).Find(context.Background(), bson.D{})
			if err != nil {
				return err
			}
			s.cursor, s.expect = cur, exp
		}
		s.takenAt = r.effWrites
		r.snaps = append(r.snaps, s)
		return nil
	}
	return fmt.Errorf("harness: unknown step kind %q", kind)
}

// sessionDump renders what session k sees through its transaction.
func (r *c03Run) sessionDump(k int) string {
	s, ok := r.sessions[k].(*lungo.Session)
	if !ok || s.Transaction() == nil {
		return "no transaction"
	}
	return catalogDump(s.Transaction().Catalog(), true)
}

func (r *c03Run) rebuildE3() (*hEnv, error) {
	e3, err := openFrom(r.committed)
	if err != nil {
		return nil, fmt.Errorf("harness: %v", err)
	}
	for _, s := range r.txnLog {
		if _, err := e3.execStep(s); err != nil {
			return nil, fmt.Errorf("harness: shadow replay: %v", err)
		}
	}
	return e3, nil
}

var profTxn = &hProfile{name: "txn", cfg: gen.Core, weights: writeWeights(map[string]int{"find": 6, "count": 2}), nss: []string{"d1.c1", "d1.c1", "d1.c2"}, docGen: defaultDocGen, idPool: simpleIDs, tinyVals: collideVals}

// inside a session transaction only calls that run on the session's
// transaction are generated (index / collection management opens its own
// write transaction and is rejected there)
var profTxnIn = &hProfile{name: "txn-in", cfg: gen.Core, weights: map[string]int{
	"insertOne": 10, "insertMany": 5, "updateOne": 6, "updateMany": 8, "updateByID": 2, "replaceOne": 5, "deleteOne": 3, "deleteMany": 2,
	"findOneAndDelete": 2, "findOneAndReplace": 2, "findOneAndUpdate": 3, "bulkWrite": 5, "find": 6, "findOne": 2, "count": 2, "distinct": 1, "listIndexes": 1,
	// catalog calls open a write transaction of their own: inside a session
	// transaction they are rejected and leave it alone
	"createIndex": 1, "createColl": 1, "dropColl": 1, "dropIndex": 1,
}, nss: []string{"d1.c1", "d1.c1", "d1.c2"}, docGen: defaultDocGen, idPool: simpleIDs, tinyVals: collideVals, delOnly: 40}

func genC03Step(t *rapid.T, r *c03Run) bson.D {
	view := (&hRun{env: r.main}).view()
	if r.open >= 0 {
		// inside a transaction the session's own view is what matters
		if s, ok := r.sessions[r.open].(*lungo.Session); ok && s.Transaction() != nil {
			view = viewOf(s.Transaction().Catalog())
		}
	}
	innerOf := func(p *hProfile) bson.D {
		st := p.genStep(t, view)
		// explicit ids only (generated ObjectIDs differ between engines)
		if d := asD(getD(st, "doc")); asS(getD(st, "op")) == "insertOne" && (len(d) == 0 || d[0].Key != "_id") {
			for i := range st {
				if st[i].Key == "doc" {
					st[i].Value = withID(rapid.SampledFrom(simpleIDs).Draw(t, "fid"), d)
				}
			}
		}
		return st
	}
	// find-and-modify calls whose projection is rejected after the write was
	// made (they must undo it), with and without an upsert
	rejected := func() bson.D {
		op := rapid.SampledFrom([]string{"findOneAndUpdate", "findOneAndUpdate", "findOneAndReplace", "findOneAndDelete"}).Draw(t, "rjop")
		st := bson.D{{Key: "op", Value: op}, {Key: "ns", Value: rapid.SampledFrom([]string{"d1.c1", "d1.c2"}).Draw(t, "rjns")},
			{Key: "filter", Value: bson.D{{Key: "_id", Value: rapid.SampledFrom(simpleIDs).Draw(t, "rjid")}}}}
		switch op {
		case "findOneAndUpdate":
			st = append(st, bson.E{Key: "update", Value: bson.D{{Key: "$set", Value: bson.D{{Key: "a", Value: rapid.SampledFrom(collideVals).Draw(t, "rjv")}}}}})
		case "findOneAndReplace":
			st = append(st, bson.E{Key: "repl", Value: bson.D{{Key: "a", Value: rapid.SampledFrom(collideVals).Draw(t, "rjv")}}})
		}
		if op != "findOneAndDelete" {
			st = append(st, bson.E{Key: "upsert", Value: rapid.Bool().Draw(t, "rjups")}, bson.E{Key: "after", Value: rapid.Bool().Draw(t, "rjafter")})
		}
		// half of the time aim at a stored document that holds documents in
		// an array: the projection below is then rejected only because of
		// what that document contains
		if rapid.Bool().Draw(t, "rjdep") {
			for _, ns := range []string{"d1.c1", "d1.c2"} {
				for _, d := range view.docs[ns] {
					for _, k := range []string{"a", "b", "c"} {
						if arr, ok := getD(d, k).(bson.A); ok && len(arr) > 0 {
							if _, isD := arr[0].(bson.D); isD {
								out := bson.D{{Key: "op", Value: op}, {Key: "ns", Value: ns}, {Key: "filter", Value: bson.D{{Key: "_id", Value: getD(d, "_id")}}}}
								for _, e := range st[3:] {
									out = append(out, e)
								}
								return append(out, bson.E{Key: "proj", Value: bson.D{{Key: k, Value: bson.D{{Key: "$elemMatch", Value: bson.D{{Key: "b", Value: bson.D{{Key: "$bogus", Value: int32(1)}}}}}}}}})
							}
						}
					}
				}
			}
		}
		return append(st, bson.E{Key: "proj", Value: rapid.SampledFrom([]bson.D{{{Key: "a", Value: int32(1)}, {Key: "b", Value: int32(0)}}, {{Key: "b", Value: int32(0)}, {Key: "a", Value: true}}, {{Key: "a", Value: "x"}},
			// rejected only when the matched document holds documents in the array a / b
			{{Key: "a", Value: bson.D{{Key: "$elemMatch", Value: bson.D{{Key: "b", Value: bson.D{{Key: "$bogus", Value: int32(1)}}}}}}}},
			{{Key: "b", Value: bson.D{{Key: "$elemMatch", Value: bson.D{{Key: "b", Value: bson.D{{Key: "$bogus", Value: int32(1)}}}}}}}},
		}).Draw(t, "rjproj")})
	}
	inner := func() bson.D {
		if rapid.IntRange(0, 999).Draw(t, "rj")%25 == 7 {
			return rejected()
		}
		return innerOf(profTxn)
	}
	innerIn := func() bson.D {
		if rapid.IntRange(0, 999).Draw(t, "rji")%20 == 7 {
			return rejected()
		}
		return noGeneratedIDs(innerOf(profTxnIn))
	}
	k := rapid.IntRange(0, 1).Draw(t, "sess")
	choice := rapid.IntRange(0, 99).Draw(t, "kind")
	if r.open >= 0 {
		switch {
		case choice < 66:
			return bson.D{{Key: "kind", Value: "sess.op"}, {Key: "sess", Value: int32(r.open)}, {Key: "step", Value: innerIn()}}
		case choice < 71:
			return bson.D{{Key: "kind", Value: "plain"}, {Key: "step", Value: inner()}}
		case choice < 76:
			return bson.D{{Key: "kind", Value: "snap"}, {Key: "what", Value: rapid.SampledFrom([]string{"catalog", "readTxn", "cursor"}).Draw(t, "what")}, {Key: "ns", Value: "d1.c1"}}
		case choice < 86:
			return bson.D{{Key: "kind", Value: "sess.commit"}, {Key: "sess", Value: int32(r.open)}}
		case choice < 93:
			return bson.D{{Key: "kind", Value: "sess.abort"}, {Key: "sess", Value: int32(r.open)}}
		case choice < 96:
			return bson.D{{Key: "kind", Value: "store.fail"}}
		case choice < 98:
			return bson.D{{Key: "kind", Value: "sess.start"}, {Key: "sess", Value: int32(r.open)}}
		default:
			return bson.D{{Key: "kind", Value: "sess.end"}, {Key: "sess", Value: int32(r.open)}}
		}
	}
	switch {
	case choice < 35:
		return bson.D{{Key: "kind", Value: "plain"}, {Key: "step", Value: inner()}}
	case choice < 55:
		return bson.D{{Key: "kind", Value: "sess.start"}, {Key: "sess", Value: int32(k)}}
	case choice < 63:
		return bson.D{{Key: "kind", Value: "sess.op"}, {Key: "sess", Value: int32(k)}, {Key: "step", Value: inner()}}
	case choice < 75:
		n := rapid.IntRange(1, 4).Draw(t, "nwith")
		steps := bson.A{}
		for i := 0; i < n; i++ {
			steps = append(steps, innerIn())
		}
		return bson.D{{Key: "kind", Value: "sess.with"}, {Key: "sess", Value: int32(k)}, {Key: "steps", Value: steps}, {Key: "outcome", Value: rapid.SampledFrom([]string{"ok", "ok", "error", "panic"}).Draw(t, "outcome")}}
	case choice < 87:
		return bson.D{{Key: "kind", Value: "snap"}, {Key: "what", Value: rapid.SampledFrom([]string{"catalog", "readTxn", "cursor"}).Draw(t, "what")}, {Key: "ns", Value: "d1.c1"}}
	case choice < 91:
		return bson.D{{Key: "kind", Value: "store.fail"}}
	case choice < 95:
		return bson.D{{Key: "kind", Value: "sess.commit"}, {Key: "sess", Value: int32(k)}}
	case choice < 98:
		return bson.D{{Key: "kind", Value: "sess.abort"}, {Key: "sess", Value: int32(k)}}
	default:
		return bson.D{{Key: "kind", Value: "sess.end"}, {Key: "sess", Value: int32(k)}}
	}
}

// noGeneratedIDs rewrites a step so that it cannot make lungo generate an
// ObjectID (the session's shadow engine would generate a different one):
// upserts are switched off.
func noGeneratedIDs(v interface{}) bson.D {
	var walk func(v interface{}) interface{}
	walk = func(v interface{}) interface{} {
		switch x := v.(type) {
		case bson.D:
			out := make(bson.D, len(x))
			// an upsert whose filter pins _id to a plain value inserts that
			// id: nothing is generated, the upsert may stay
			pinned := false
			if f := asD(getD(x, "filter")); len(f) == 1 && f[0].Key == "_id" && f[0].Value != nil {
				if _, isOps := f[0].Value.(bson.D); !isOps {
					if _, isOID := f[0].Value.(primitive.ObjectID); !isOID {
						pinned = true
					}
				}
			}
			if id := getD(x, "id"); id != nil && asS(getD(x, "op")) == "updateByID" {
				if _, isOID := id.(primitive.ObjectID); !isOID {
					pinned = true
				}
			}
			// ... unless the update or replacement itself touches _id
			if pinned {
				for _, k := range []string{"update", "repl"} {
					if d := asD(getD(x, k)); d != nil && strings.Contains(show(d), "_id") {
						pinned = false
					}
				}
			}
			for i, e := range x {
				if e.Key == "upsert" && !pinned {
					out[i] = bson.E{Key: "upsert", Value: false}
					continue
				}
				if e.Key == "models" {
					out[i] = bson.E{Key: e.Key, Value: walk(e.Value)}
					continue
				}
				out[i] = e
			}
			return out
		case bson.A:
			out := make(bson.A, len(x))
			for i, e := range x {
				out[i] = walk(e)
			}
			return out
		}
		return v
	}
	return walk(v).(bson.D)
}

func viewOf(cat *lungo.Catalog) *hView {
	v := &hView{docs: map[string][]bson.D{}, indexes: map[string][]string{}, idxKeys: map[string][]bson.D{}}
	for h, c := range cat.Namespaces {
		if h == lungo.Oplog {
			continue
		}
		for _, d := range c.Documents.List {
			v.docs[h.String()] = append(v.docs[h.String()], deepCopyBin(*d).(bson.D))
		}
		for n, ix := range c.Indexes {
			v.indexes[h.String()] = append(v.indexes[h.String()], n)
			v.idxKeys[h.String()] = append(v.idxKeys[h.String()], *ix.Config().Key)
		}
	}
	return v
}

func (r *c03Run) nontrivial() bool {
	for _, s := range r.snaps {
		if r.effWrites-s.takenAt >= 5 {
			r.survived = true
		}
	}
	if r.committed2 >= 1 {
		r.x.Class("history:committed-transaction-with>=2-writes")
	}
	if r.dropped2 >= 1 {
		r.x.Class("history:dropped-transaction-with>=2-writes")
	}
	if r.survived {
		r.x.Class("history:snapshot-survived>=5-writes")
	}
	return r.committed2 >= 1 && r.dropped2 >= 1 && r.survived
}

func c03Execute(r *c03Run, n int, step bson.D) error {
	if err := r.do(n, step); err != nil {
		return fmt.Errorf("step %d %s: %v", n, show(step), err)
	}
	if err := r.checkSnapshots(n); err != nil {
		return fmt.Errorf("step %d %s: %v", n, show(step), err)
	}
	return nil
}

var propC03 = Register(&Prop{ID: "C03", Sub: "sessions", Live: c03Live, Run: c03Run_})

// C02 inside session transactions: a call that fails inside a transaction
// leaves the transaction's documents, indexes and pending events exactly as
// they were (the session's view is compared with committed state + its
// successful writes after every call, failing or not). Same machinery, biased
// the same way; registered under C02 because that is the clause it decides.
var propC02Sessions = Register(&Prop{ID: "C02", Sub: "sessions", Live: c03Live, Run: c03Run_})

func TestProp_C02_sessions(t *testing.T) { propC02Sessions.Check(t) }

// C08 inside session transactions: the same machinery decides that calls
// failing inside a transaction leave no pending event and that a commit
// publishes exactly the events of the transaction's successful writes (the
// compared dumps contain the change log).
var propC08Sessions = Register(&Prop{ID: "C08", Sub: "sessions", Live: c03Live, Run: c03Run_})

func TestProp_C08_sessions(t *testing.T) { propC08Sessions.Check(t) }

var (
	c03Live = func(t *rapid.T, x *Ctx) (bson.D, error) {
		r, err := newC03Run(x)
		if err != nil {
			return nil, fmt.Errorf("harness: %v", err)
		}
		defer r.close()
		steps := bson.A{}
		mk := func() bson.D { return bson.D{{Key: "steps", Value: steps}} }
		n := rapid.IntRange(20, 90).Draw(t, "nsteps")
		trk := newOIDTracker()
		for i := 0; i < n; i++ {
			st := genC03Step(t, r)
			steps = append(steps, st)
			err := c03Execute(r, i+1, st)
			if ids := trk.fresh(r.main.engine.Catalog()); len(ids) > 0 {
				steps[len(steps)-1] = append(st[:len(st):len(st)], bson.E{Key: "oids", Value: ids})
			}
			if err != nil {
				return mk(), err
			}
		}
		if err := r.finishSnapshots(); err != nil {
			return mk(), err
		}
		if r.nontrivial() {
			x.NonTrivial()
		}
		return mk(), nil
	}
	c03Run_ = func(c bson.D, x *Ctx) error {
		r, err := newC03Run(x)
		if err != nil {
			return fmt.Errorf("harness: %v", err)
		}
		defer r.close()
		trk := newOIDTracker()
		for i, s := range asA(getD(c, "steps")) {
			rec := getD(asD(s), "oids")
			err := c03Execute(r, i+1, trk.subst(withoutKey(asD(s), "oids")).(bson.D))
			trk.learn(rec, r.main.engine.Catalog())
			if err != nil {
				return err
			}
		}
		if err := r.finishSnapshots(); err != nil {
			return err
		}
		if r.nontrivial() {
			x.NonTrivial()
		}
		return nil
	}
)

func TestProp_C03_sessions(t *testing.T) { propC03.Check(t) }
