package props

import (
	"context"
	"fmt"
	"runtime"
	"sort"
	"sync"
	"sync/atomic"
	"testing"
	"time"

	"github.com/256dpi/lungo"
	"go.mongodb.org/mongo-driver/bson"
	"go.mongodb.org/mongo-driver/mongo"
	"go.mongodb.org/mongo-driver/mongo/options"
	"pgregory.net/rapid"
)

// C04: concurrent operations are strictly serializable; no update is lost.
// rapid draws a program (actors x calls) and a decision tape that perturbs the
// schedule at the engine's hook points; the program runs on real goroutines.
// The witness order is the change log, as the property states.

type c04Call struct {
	actor, idx int
	cid        string
	kind       string
	k, k2      int
	target     string // for delete
	inv, ret   int64
	// observed
	err      string
	matched  int64
	modified int64
	deleted  int64
	beforeN  int64 // cas: n of the returned before-document (-1 none)
	docs     string
	readOK   bool
	rywBad   string // a read inside the transaction that missed the transaction's own write
}

var c04Kinds = []string{"inc", "inc", "inc", "insert", "cas", "claim", "claim", "delete", "transfer", "transfer", "transferRj", "abortInsert", "abortReplace", "read", "read", "count", "push"}

func genC04(t *rapid.T) bson.D {
	na := rapid.IntRange(2, 8).Draw(t, "actors")
	actors := bson.A{}
	n := 0
	for a := 0; a < na; a++ {
		nc := rapid.IntRange(3, 12).Draw(t, "calls")
		calls := bson.A{}
		for i := 0; i < nc; i++ {
			kind := rapid.SampledFrom(c04Kinds).Draw(t, "kind")
			c := bson.D{{Key: "kind", Value: kind}, {Key: "k", Value: int32(rapid.IntRange(0, 2).Draw(t, "k"))}, {Key: "k2", Value: int32(rapid.IntRange(0, 2).Draw(t, "k2"))}, {Key: "t", Value: int32(rapid.IntRange(0, 40).Draw(t, "target"))}}
			calls = append(calls, c)
			n++
		}
		actors = append(actors, calls)
	}
	tape := bson.A{}
	for i, m := 0, rapid.IntRange(0, 200).Draw(t, "tapelen"); i < m; i++ {
		tape = append(tape, int32(rapid.SampledFrom([]int{0, 0, 0, 1, 1, 2, 2, 3}).Draw(t, "tape")))
	}
	return bson.D{{Key: "actors", Value: actors}, {Key: "tape", Value: tape}, {Key: "procs", Value: int32(rapid.SampledFrom([]int{2, 4, 8, 16}).Draw(t, "procs"))}}
}

func c04Setup(env *hEnv) error {
	ctx := context.Background()
	coll := env.coll("d1.hot")
	for k := 0; k < 3; k++ {
		if _, err := coll.InsertOne(ctx, bson.D{{Key: "_id", Value: int32(k)}, {Key: "n", Value: int64(100)}, {Key: "log", Value: bson.A{}}, {Key: "w", Value: bson.A{bson.D{{Key: "q", Value: int64(0)}}}}}); err != nil {
			return err
		}
	}
	return nil
}

func docsString(docs []bson.D) string {
	s := ""
	for _, d := range docs {
		s += string(marshal(d)) + "|"
	}
	return s
}

// execute one call against an engine; sess is the actor's session (for
// transfers).
func c04Exec(env *hEnv, c *c04Call, sess lungo.ISession) {
	ctx := context.Background()
	hot := env.coll("d1.hot")
	aux := env.coll("d1.aux")
	setErr := func(err error) {
		if err != nil {
			c.err = "other"
			if lungo.IsUniquenessError(err) {
				c.err = "uniq"
			}
		}
	}
	switch c.kind {
	case "inc":
		r, err := hot.UpdateOne(ctx, bson.D{{Key: "_id", Value: int32(c.k)}}, bson.D{{Key: "$inc", Value: bson.D{{Key: "n", Value: int64(1)}}}, {Key: "$push", Value: bson.D{{Key: "log", Value: c.cid}}}})
		setErr(err)
		if r != nil {
			c.matched, c.modified = r.MatchedCount, r.ModifiedCount
		}
	case "push":
		r, err := hot.UpdateMany(ctx, bson.D{{Key: "n", Value: bson.D{{Key: "$gte", Value: int64(100)}}}}, bson.D{{Key: "$addToSet", Value: bson.D{{Key: "log", Value: c.cid}}}})
		setErr(err)
		if r != nil {
			c.matched, c.modified = r.MatchedCount, r.ModifiedCount
		}
	case "insert":
		_, err := aux.InsertOne(ctx, bson.D{{Key: "_id", Value: "a" + c.cid}, {Key: "by", Value: c.cid}})
		setErr(err)
		if err == nil {
			c.modified = 1
		}
	case "delete":
		r, err := aux.DeleteOne(ctx, bson.D{{Key: "_id", Value: c.target}})
		setErr(err)
		if r != nil {
			c.deleted = r.DeletedCount
		}
	case "cas":
		var before bson.D
		err := hot.FindOneAndUpdate(ctx, bson.D{{Key: "_id", Value: int32(c.k)}, {Key: "n", Value: bson.D{{Key: "$gte", Value: int64(101)}}}}, bson.D{{Key: "$inc", Value: bson.D{{Key: "n", Value: int64(-1)}}}, {Key: "$push", Value: bson.D{{Key: "log", Value: c.cid}}}}).Decode(&before)
		c.beforeN = -1
		if err == mongo.ErrNoDocuments {
			return
		}
		setErr(err)
		if err == nil {
			c.beforeN, _ = getD(before, "n").(int64)
			c.modified = 1
		}
	case "claim":
		// sorted find-and-modify on mutable fields ("take the fullest
		// counter"): which document it acts on depends on the state at its
		// serialisation point
		var before bson.D
		err := hot.FindOneAndUpdate(ctx, bson.D{{Key: "n", Value: bson.D{{Key: "$gte", Value: int64(100 + c.k)}}}}, bson.D{{Key: "$inc", Value: bson.D{{Key: "n", Value: int64(-2)}}}, {Key: "$push", Value: bson.D{{Key: "log", Value: c.cid}}}},
			options.FindOneAndUpdate().SetSort(bson.D{{Key: "n", Value: -1}, {Key: "_id", Value: 1}})).Decode(&before)
		c.beforeN = -1
		if err == mongo.ErrNoDocuments {
			return
		}
		setErr(err)
		if err == nil {
			c.beforeN, _ = getD(before, "n").(int64)
			id, _ := getD(before, "_id").(int32)
			c.matched = int64(id) + 1
			c.modified = 1
		}
	case "abortInsert":
		// a transaction that inserts and is aborted leaves nothing behind:
		// the same id can be inserted right afterwards (nobody else uses it)
		id := "x" + c.cid
		if err := sess.StartTransaction(); err != nil {
			setErr(err)
			return
		}
		_ = lungo.WithSession(ctx, sess, func(sc lungo.ISessionContext) error {
			_, err := aux.InsertOne(sc, bson.D{{Key: "_id", Value: id}, {Key: "by", Value: c.cid}})
			if err != nil {
				c.rywBad = fmt.Sprintf("abortInsert %s: insert inside the transaction failed: %v", c.cid, err)
			}
			return nil
		})
		if err := sess.AbortTransaction(ctx); err != nil {
			c.rywBad = fmt.Sprintf("abortInsert %s: AbortTransaction failed: %v", c.cid, err)
		}
		if n, err := aux.CountDocuments(ctx, bson.D{{Key: "_id", Value: id}}); err != nil || n != 0 {
			c.rywBad = fmt.Sprintf("abortInsert %s: %d documents with the aborted id are visible (%v)", c.cid, n, err)
		}
		_, err := aux.InsertOne(ctx, bson.D{{Key: "_id", Value: id}, {Key: "by", Value: c.cid}})
		setErr(err)
		if err != nil {
			c.rywBad = fmt.Sprintf("abortInsert %s: inserting the id of the aborted insert afterwards failed: %v", c.cid, err)
		} else {
			c.modified = 1
		}
	case "abortReplace":
		// a transaction whose first write is a replace (once of an existing
		// document, once as an upsert) and which is aborted: no document and
		// no change event of it may exist afterwards
		id := "a" + c.cid
		if err := sess.StartTransaction(); err != nil {
			setErr(err)
			return
		}
		_ = lungo.WithSession(ctx, sess, func(sc lungo.ISessionContext) error {
			if _, err := hot.ReplaceOne(sc, bson.D{{Key: "_id", Value: int32(c.k)}}, bson.D{{Key: "n", Value: int64(-777)}, {Key: "log", Value: bson.A{c.cid}}}); err != nil {
				c.rywBad = fmt.Sprintf("abortReplace %s: replace inside the transaction failed: %v", c.cid, err)
			}
			if _, err := aux.ReplaceOne(sc, bson.D{{Key: "_id", Value: id}}, bson.D{{Key: "by", Value: c.cid}}, options.Replace().SetUpsert(true)); err != nil {
				c.rywBad = fmt.Sprintf("abortReplace %s: upserting replace inside the transaction failed: %v", c.cid, err)
			}
			return nil
		})
		if err := sess.AbortTransaction(ctx); err != nil {
			c.rywBad = fmt.Sprintf("abortReplace %s: AbortTransaction failed: %v", c.cid, err)
		}
		if n, err := hot.CountDocuments(ctx, bson.D{{Key: "n", Value: int64(-777)}}); err != nil || n != 0 {
			c.rywBad = fmt.Sprintf("abortReplace %s: %d documents carry the aborted replacement (%v)", c.cid, n, err)
		}
	case "transfer", "transferRj":
		if c.k == c.k2 {
			c.k2 = (c.k + 1) % 3
		}
		_, err := sess.WithTransaction(ctx, func(sc lungo.ISessionContext) (interface{}, error) {
			var a, b bson.D
			if err := hot.FindOne(sc, bson.D{{Key: "_id", Value: int32(c.k)}}).Decode(&a); err != nil {
				return nil, err
			}
			if err := hot.FindOne(sc, bson.D{{Key: "_id", Value: int32(c.k2)}}).Decode(&b); err != nil {
				return nil, err
			}
			na, _ := getD(a, "n").(int64)
			nb, _ := getD(b, "n").(int64)
			// read-then-write: absolute values computed from the reads; the
			// counter inside the array of sub-documents moves with them (a
			// write into a nested value of the published document would show
			// to readers before the commit)
			if _, err := hot.UpdateOne(sc, bson.D{{Key: "_id", Value: int32(c.k)}}, bson.D{{Key: "$set", Value: bson.D{{Key: "n", Value: na - 1}}}, {Key: "$push", Value: bson.D{{Key: "log", Value: c.cid}}}, {Key: "$inc", Value: bson.D{{Key: "w.0.q", Value: int64(1)}}}}); err != nil {
				return nil, err
			}
			if c.kind == "transferRj" {
				// a catalog call in the middle of the transaction (lungo refuses
				// it there) neither ends nor publishes the transaction
				_ = env.client.Database("d1").CreateCollection(sc, "made"+c.cid)
			}
			if _, err := hot.UpdateOne(sc, bson.D{{Key: "_id", Value: int32(c.k2)}}, bson.D{{Key: "$set", Value: bson.D{{Key: "n", Value: nb + 1}}}, {Key: "$push", Value: bson.D{{Key: "log", Value: c.cid}}}, {Key: "$inc", Value: bson.D{{Key: "w.0.q", Value: int64(1)}}}}); err != nil {
				return nil, err
			}
			// in every serial execution a read that follows the writes
			// returns what was written
			var a2, b2 bson.D
			if err := hot.FindOne(sc, bson.D{{Key: "_id", Value: int32(c.k)}}).Decode(&a2); err != nil {
				return nil, err
			}
			if err := hot.FindOne(sc, bson.D{{Key: "_id", Value: int32(c.k2)}}).Decode(&b2); err != nil {
				return nil, err
			}
			na2, _ := getD(a2, "n").(int64)
			nb2, _ := getD(b2, "n").(int64)
			if na2 != na-1 || nb2 != nb+1 {
				c.rywBad = fmt.Sprintf("transfer %s wrote n=%d and n=%d inside its transaction and then read n=%d and n=%d", c.cid, na-1, nb+1, na2, nb2)
			}
			if n, err := hot.CountDocuments(sc, bson.D{{Key: "log", Value: c.cid}}); err != nil || n != 2 {
				c.rywBad = fmt.Sprintf("transfer %s: %d documents carry its mark inside its transaction (%v), want 2", c.cid, n, err)
			}
			if c.kind == "transferRj" {
				// a call that fails inside the transaction (its projection is
				// rejected after the write) takes nothing else with it
				var d bson.D
				rerr := hot.FindOneAndUpdate(sc, bson.D{{Key: "_id", Value: int32(c.k)}}, bson.D{{Key: "$inc", Value: bson.D{{Key: "n", Value: int64(1000)}, {Key: "w.0.q", Value: int64(1000)}}}}, options.FindOneAndUpdate().SetProjection(bson.D{{Key: "n", Value: 1}, {Key: "log", Value: 0}})).Decode(&d)
				if rerr == nil {
					c.rywBad = fmt.Sprintf("transfer %s: a find-and-modify with a mixed projection succeeded", c.cid)
				}
			}
			return nil, nil
		})
		setErr(err)
		if err == nil {
			c.modified = 2
		}
	case "read":
		docs, err := findDocs(hot, bson.D{})
		setErr(err)
		docs2, err2 := findDocs(aux, bson.D{}, options.Find().SetSort(bson.D{{Key: "_id", Value: 1}}))
		_ = docs2
		_ = err2
		c.docs = docsString(docs)
		c.readOK = err == nil
	case "count":
		n, err := aux.CountDocuments(ctx, bson.D{})
		setErr(err)
		c.matched = n
		c.readOK = err == nil
	}
}

func c04Program(c bson.D) [][]*c04Call {
	var prog [][]*c04Call
	for a, av := range asA(getD(c, "actors")) {
		var calls []*c04Call
		for i, cv := range asA(av) {
			cd := asD(cv)
			call := &c04Call{actor: a, idx: i, cid: fmt.Sprintf("c%d_%d", a, i), kind: asS(getD(cd, "kind")), k: asI(getD(cd, "k")), k2: asI(getD(cd, "k2")), beforeN: -1}
			calls = append(calls, call)
		}
		prog = append(prog, calls)
	}
	// delete targets: some other call's id (may or may not be an insert)
	var all []*c04Call
	for _, cs := range prog {
		all = append(all, cs...)
	}
	for a, av := range asA(getD(c, "actors")) {
		for i, cv := range asA(av) {
			t := asI(getD(asD(cv), "t"))
			prog[a][i].target = "a" + all[t%len(all)].cid
		}
	}
	return prog
}

func c04RunOnce(c bson.D, x *Ctx) error {
	prog := c04Program(c)
	var tape []int
	for _, v := range asA(getD(c, "tape")) {
		tape = append(tape, asI(v))
	}
	old := runtime.GOMAXPROCS(asI(getD(c, "procs")))
	defer runtime.GOMAXPROCS(old)
	env, err := openMem()
	if err != nil {
		return fmt.Errorf("harness: %v", err)
	}
	defer env.close()
	if err := c04Setup(env); err != nil {
		return fmt.Errorf("harness: %v", err)
	}
	initial := env.engine.Catalog()
	initLen := len(initial.Namespaces[lungo.Oplog].Documents.List)
	// schedule perturbation
	var tpos int64
	hook := func(point string) {
		i := atomic.AddInt64(&tpos, 1) - 1
		if int(i) >= len(tape) {
			return
		}
		switch tape[i] {
		case 1:
			runtime.Gosched()
		case 2:
			time.Sleep(20 * time.Microsecond)
		case 3:
			time.Sleep(time.Millisecond)
		}
	}
	lungo.VerifHook.Store(&hook)
	defer lungo.VerifHook.Store(nil)
	var tick int64
	var wg sync.WaitGroup
	start := make(chan struct{})
	var panics atomic.Value
	for a := range prog {
		wg.Add(1)
		go func(calls []*c04Call) {
			defer wg.Done()
			defer func() {
				if p := recover(); p != nil {
					panics.Store(fmt.Sprintf("actor panicked: %v", p))
				}
			}()
			sess, _ := env.client.StartSession()
			<-start
			for _, call := range calls {
				call.inv = atomic.AddInt64(&tick, 1)
				c04Exec(env, call, sess)
				call.ret = atomic.AddInt64(&tick, 1)
			}
		}(prog[a])
	}
	close(start)
	done := make(chan struct{})
	go func() { wg.Wait(); close(done) }()
	select {
	case <-done:
	case <-time.After(60 * time.Second):
		return fmt.Errorf("the concurrent program did not finish within 60 s (deadlock)")
	}
	lungo.VerifHook.Store(nil)
	if p := panics.Load(); p != nil {
		return fmt.Errorf("%v", p)
	}
	return c04Check(prog, env, initial, initLen, x)
}

func c04Check(prog [][]*c04Call, env *hEnv, initial *lungo.Catalog, initLen int, x *Ctx) error {
	final := env.engine.Catalog()
	events := final.Namespaces[lungo.Oplog].Documents.List[initLen:]
	byCid := map[string]*c04Call{}
	var all []*c04Call
	for _, cs := range prog {
		for _, c := range cs {
			byCid[c.cid] = c
			all = append(all, c)
		}
	}
	for _, c := range all {
		if c.rywBad != "" {
			return fmt.Errorf("no serial execution explains: %s", c.rywBad)
		}
	}
	// attribute events to calls
	deleters := map[string][]*c04Call{}
	for _, c := range all {
		if c.kind == "delete" && c.deleted == 1 {
			deleters[c.target] = append(deleters[c.target], c)
		}
	}
	var order []*c04Call // write calls in change-log order
	firstPos := map[*c04Call]int{}
	lastPos := map[*c04Call]int{}
	count := map[*c04Call]int{}
	for i, evp := range events {
		ev := *evp
		var owner *c04Call
		switch asS(getD(ev, "operationType")) {
		case "insert":
			owner = byCid[asS(getD(asD(getD(ev, "fullDocument")), "by"))]
		case "replace":
			return fmt.Errorf("change-log event %d is a replace event, but no call of the program commits a replace (an aborted transaction did one): %s", i, show(ev))
		case "update":
			// the last log entry of the new version names the writer, except for
			// $addToSet pushes (cid is appended as well)
			log := asA(getD(asD(getD(ev, "fullDocument")), "log"))
			if len(log) > 0 {
				owner = byCid[asS(log[len(log)-1])]
			}
		case "delete":
			id := asS(getPathD(ev, "documentKey._id"))
			ds := deleters[id]
			if len(ds) != 1 {
				return fmt.Errorf("document %q was deleted once in the change log but %d delete calls report success", id, len(ds))
			}
			owner = ds[0]
			deleters[id] = nil
		}
		if owner == nil {
			return fmt.Errorf("change-log event %d cannot be attributed to any call: %s", i, show(ev))
		}
		if _, ok := firstPos[owner]; !ok {
			firstPos[owner] = i
			order = append(order, owner)
		}
		lastPos[owner] = i
		count[owner]++
	}
	for id, ds := range deleters {
		if len(ds) > 0 {
			return fmt.Errorf("%d delete call(s) report having deleted %q but the change log has no such event", len(ds), id)
		}
	}
	// (1) every successful write has its events, contiguous; failed calls none
	for _, c := range all {
		wantEvents := 0
		switch c.kind {
		case "inc", "cas", "claim", "insert", "abortInsert":
			if c.err == "" && c.modified > 0 {
				wantEvents = 1
			}
		case "push":
			wantEvents = int(c.modified)
		case "transfer", "transferRj":
			if c.err == "" {
				wantEvents = 2
			}
		case "delete":
			wantEvents = int(c.deleted)
		}
		if c.err != "" && c.kind != "push" {
			wantEvents = 0
		}
		if count[c] != wantEvents {
			return fmt.Errorf("call %s (%s, result err=%q matched=%d modified=%d deleted=%d) has %d change-log events, expected %d", c.cid, c.kind, c.err, c.matched, c.modified, c.deleted, count[c], wantEvents)
		}
		if count[c] > 0 && lastPos[c]-firstPos[c]+1 != count[c] {
			return fmt.Errorf("the events of call %s (%s) are not contiguous in the change log (positions %d..%d for %d events)", c.cid, c.kind, firstPos[c], lastPos[c], count[c])
		}
	}
	// (3) real time: A returned before B was invoked => A before B in the log
	for i, a := range order {
		for _, b := range order[:i] {
			// b precedes a in the log; violation if a returned before b was invoked
			if a.ret < b.inv {
				return fmt.Errorf("call %s returned (tick %d) before call %s was invoked (tick %d) but appears after it in the change log", a.cid, a.ret, b.cid, b.inv)
			}
		}
	}
	// (2) sequential replay in change-log order on a fresh engine
	seq, err := openFrom(initial)
	if err != nil {
		return fmt.Errorf("harness: %v", err)
	}
	defer seq.close()
	idx := map[*c04Call]int{}
	var hotStates, auxCounts []string
	snap := func() {
		docs, _ := findDocs(seq.coll("d1.hot"), bson.D{})
		hotStates = append(hotStates, docsString(docs))
		n, _ := seq.coll("d1.aux").CountDocuments(context.Background(), bson.D{})
		auxCounts = append(auxCounts, fmt.Sprint(n))
	}
	snap()
	sessSeq, _ := seq.client.StartSession()
	for i, c := range order {
		idx[c] = i
		r := &c04Call{cid: c.cid, kind: c.kind, k: c.k, k2: c.k2, target: c.target, beforeN: -1}
		c04Exec(seq, r, sessSeq)
		if r.err != c.err || r.matched != c.matched || r.modified != c.modified || r.deleted != c.deleted || r.beforeN != c.beforeN {
			return fmt.Errorf("call %s (%s): concurrently it returned err=%q matched=%d modified=%d deleted=%d before.n=%d; replayed sequentially at its change-log position %d it returns err=%q matched=%d modified=%d deleted=%d before.n=%d", c.cid, c.kind, c.err, c.matched, c.modified, c.deleted, c.beforeN, i, r.err, r.matched, r.modified, r.deleted, r.beforeN)
		}
		snap()
	}
	if got, want := catalogDump(final, true), catalogDump(seq.engine.Catalog(), true); got != want {
		return fmt.Errorf("the final contents differ from replaying the committed writes in change-log order:\n--- concurrent\n%s--- sequential replay\n%s", got, want)
	}
	// (4) reads and event-less calls see a committed prefix that was current
	overlapWrites, overlapTxn := 0, 0
	for _, c := range all {
		if _, isWrite := idx[c]; isWrite {
			continue
		}
		lo, hi := 0, len(order)
		for _, w := range order {
			if w.ret < c.inv && idx[w]+1 > lo {
				lo = idx[w] + 1
			}
			if w.inv > c.ret && idx[w] < hi {
				hi = idx[w]
			}
		}
		if lo > hi {
			return fmt.Errorf("harness: empty admissible interval for %s", c.cid)
		}
		ok := false
		switch c.kind {
		case "read":
			if !c.readOK {
				return fmt.Errorf("read %s failed", c.cid)
			}
			for p := lo; p <= hi; p++ {
				if hotStates[p] == c.docs {
					ok = true
				}
			}
			if !ok {
				return fmt.Errorf("read %s (invoked at tick %d, returned at %d) saw a state that is not the state after any committed prefix between %d and %d writes", c.cid, c.inv, c.ret, lo, hi)
			}
		case "count":
			for p := lo; p <= hi; p++ {
				if auxCounts[p] == fmt.Sprint(c.matched) {
					ok = true
				}
			}
			if !ok {
				return fmt.Errorf("count %s = %d is not the count after any committed prefix between %d and %d writes", c.cid, c.matched, lo, hi)
			}
		default:
			// a write call that left no event (no match, failed): its result
			// must be the one the sequential engine gives at some admissible prefix
			for p := lo; p <= hi && !ok; p++ {
				e, err := openFrom(initial)
				if err != nil {
					return fmt.Errorf("harness: %v", err)
				}
				s2, _ := e.client.StartSession()
				for _, w := range order[:p] {
					c04Exec(e, &c04Call{cid: w.cid, kind: w.kind, k: w.k, k2: w.k2, target: w.target}, s2)
				}
				r := &c04Call{cid: c.cid, kind: c.kind, k: c.k, k2: c.k2, target: c.target, beforeN: -1}
				c04Exec(e, r, s2)
				if r.err == c.err && r.matched == c.matched && r.modified == 0 && r.deleted == 0 && r.beforeN == c.beforeN {
					ok = true
				}
				e.close()
			}
			if !ok {
				return fmt.Errorf("call %s (%s) left no change-log event and returned err=%q matched=%d; no committed prefix between %d and %d writes explains that result", c.cid, c.kind, c.err, c.matched, lo, hi)
			}
		}
	}
	// (5) conservation: no update lost
	docs, _ := findDocs(env.coll("d1.hot"), bson.D{})
	var sum int64
	logged := map[string]int{}
	for _, d := range docs {
		n, _ := getD(d, "n").(int64)
		sum += n
		for _, l := range asA(getD(d, "log")) {
			logged[asS(l)]++
		}
	}
	want := int64(300)
	for _, c := range all {
		switch c.kind {
		case "inc":
			if c.err == "" && c.modified == 1 {
				want++
				if logged[c.cid] != 1 {
					return fmt.Errorf("lost update: %s reported success but its mark occurs %d times in the documents", c.cid, logged[c.cid])
				}
			}
		case "cas":
			if c.err == "" && c.modified == 1 {
				want--
				if logged[c.cid] != 1 {
					return fmt.Errorf("lost update: %s reported success but its mark occurs %d times in the documents", c.cid, logged[c.cid])
				}
			}
		case "claim":
			if c.err == "" && c.modified == 1 {
				want -= 2
				if logged[c.cid] != 1 {
					return fmt.Errorf("lost update: %s reported success but its mark occurs %d times in the documents", c.cid, logged[c.cid])
				}
			}
		case "transfer", "transferRj":
			if c.err == "" && logged[c.cid] != 2 {
				return fmt.Errorf("lost update: transfer %s committed but its mark occurs %d times in the documents", c.cid, logged[c.cid])
			}
		}
	}
	if sum != want {
		return fmt.Errorf("lost update: the counters sum to %d, the successful calls imply %d", sum, want)
	}
	// classification
	for i, a := range order {
		for _, b := range order[i+1:] {
			if a.inv < b.ret && b.inv < a.ret && a.actor != b.actor {
				overlapWrites++
				if a.kind == "transfer" || b.kind == "transfer" || a.kind == "transferRj" || b.kind == "transferRj" {
					overlapTxn++
				}
			}
		}
	}
	x.Rec.ClassN("overlapping-write-pairs", overlapWrites)
	x.Rec.ClassN("committed-writes", len(order))
	if overlapWrites >= 1 && overlapTxn >= 1 {
		x.NonTrivial()
	}
	_ = sort.Ints
	return nil
}

var propC04 = Register(&Prop{ID: "C04", Sub: "serial", Gen: genC04, Run: func(c bson.D, x *Ctx) error {
	// a replayed case is re-executed several times (the verdict depends on the
	// schedule); any failing execution is a violation
	n := 1
	if x.NoExclude {
		n = 20
	}
	for i := 0; i < n; i++ {
		if err := c04RunOnce(c, x); err != nil {
			return err
		}
	}
	return nil
}})

func TestProp_C04_serial(t *testing.T) { propC04.Check(t) }
