package props

import (
	"fmt"
	"testing"

	"github.com/256dpi/lungo"
	"go.mongodb.org/mongo-driver/bson"
)

// C05 (durability of what was acknowledged): on the single-file store, once a
// call has returned the file holds exactly the state every client sees - a
// kill right after the return loads that state. The comparison covers
// documents, index definitions and the whole change log, also while retention
// truncates the log (steps 'age': the stored log is moved two hours into the
// past and the engine reopened with tight retention).

var profDurable = func() *hProfile {
	p := *profPersist
	p.name = "durable"
	p.weights = map[string]int{}
	for k, v := range profPersist.weights {
		p.weights[k] = v
	}
	p.weights["age"] = 5
	p.weights["reopen"] = 2
	p.weights["updateMany"] = 8
	p.weights["deleteMany"] = 4
	p.weights["bulkWrite"] = 5
	return &p
}()

type oracleDurable struct {
	logBefore int
	trimmed   int
	compared  int
}

func (o *oracleDurable) before(r *hRun, step bson.D) error {
	o.logBefore = len(r.env.engine.Catalog().Namespaces[lungo.Oplog].Documents.List)
	return nil
}

func (o *oracleDurable) after(r *hRun, step, res bson.D) error {
	if r.env.loadFile == nil {
		return fmt.Errorf("harness: the environment has no store file")
	}
	live := r.env.engine.Catalog()
	onDisk, err := r.env.loadFile()
	if err != nil {
		return fmt.Errorf("after %s the store file does not load: %v", show(step), err)
	}
	a, b := catalogDumpOpts(live, false, true), catalogDumpOpts(onDisk, false, true)
	if a != b {
		return fmt.Errorf("after %s -> %s returned, the store file does not hold the state the clients see (a crash now loses or resurrects data):\n--- visible state\n%s--- loaded from the file\n%s", show(step), show(res), a, b)
	}
	o.compared++
	op := asS(getD(step, "op"))
	if op != "age" && op != "reopen" && len(live.Namespaces[lungo.Oplog].Documents.List) < o.logBefore {
		o.trimmed++
		r.x.Class("commit-that-truncated-the-change-log")
	}
	return nil
}

func (o *oracleDurable) finish(r *hRun) error { return nil }

var propC05Durable = Register(&Prop{ID: "C05", Sub: "durable",
	Live: liveHistoryOn(openFile, profDurable, func() []hOracle { return []hOracle{&oracleDurable{}} }, 6, 30, func(r *hRun) bool { return r.oracles[0].(*oracleDurable).trimmed >= 1 }),
	Run:  runHistoryOn(openFile, func() []hOracle { return []hOracle{&oracleDurable{}} }, func(r *hRun) bool { return r.oracles[0].(*oracleDurable).trimmed >= 1 }),
})

func TestProp_C05_durable(t *testing.T) { propC05Durable.Check(t) }
