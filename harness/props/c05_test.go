package props

import (
	"bufio"
	"bytes"
	"context"
	"encoding/json"
	"fmt"
	"os"
	"os/exec"
	"path/filepath"
	"regexp"
	"strconv"
	"strings"
	"testing"
	"time"

	"github.com/256dpi/lungo"
	"go.mongodb.org/mongo-driver/bson"
	"pgregory.net/rapid"
)

// C05: committed data survives crashes; the store file is always old or new,
// never torn; a failing store leaves the visible state at the last persisted one.

func genC05Program(t *rapid.T, maxCommits int) CrashProgram {
	var prog CrashProgram
	n := rapid.IntRange(3, maxCommits).Draw(t, "commits")
	nextID := 1
	nss := []string{"d1.a", "d1.b", "d2.a", "d1.fs.files"}
	for i := 0; i < n; i++ {
		var cm CrashCommit
		switch rapid.IntRange(0, 9).Draw(t, "ckind") {
		case 0:
			cm.Steps = []CrashStep{{Kind: "index", NS: rapid.SampledFrom(nss).Draw(t, "ins"), Field: rapid.SampledFrom([]string{"u", "c", "n"}).Draw(t, "ifield"), Unique: rapid.Bool().Draw(t, "iuniq")}}
		case 1:
			cm.Steps = []CrashStep{{Kind: "delete", NS: rapid.SampledFrom(nss).Draw(t, "dns"), IDs: []int{rapid.IntRange(1, 12).Draw(t, "did"), rapid.IntRange(1, 12).Draw(t, "did2")}}, {Kind: "insert", NS: rapid.SampledFrom(nss).Draw(t, "dins"), IDs: []int{nextID}, Payload: 10}}
			nextID++
		default:
			k := rapid.IntRange(1, 3).Draw(t, "nsteps")
			for j := 0; j < k; j++ {
				ns := nss[(i+j)%len(nss)]
				if rapid.IntRange(0, 3).Draw(t, "upd") == 0 {
					cm.Steps = append(cm.Steps, CrashStep{Kind: "update", NS: ns})
				}
				ids := []int{}
				for m, c := 0, rapid.IntRange(1, 3).Draw(t, "ndocs"); m < c; m++ {
					ids = append(ids, nextID)
					nextID++
				}
				cm.Steps = append(cm.Steps, CrashStep{Kind: "insert", NS: ns, IDs: ids, Payload: rapid.SampledFrom([]int{0, 10, 300, 5000, 40000}).Draw(t, "payload")})
			}
		}
		prog.Commits = append(prog.Commits, cm)
	}
	return prog
}

func progToCase(p CrashProgram, extra bson.D) bson.D {
	b, _ := json.Marshal(p)
	return append(bson.D{{Key: "program", Value: string(b)}}, extra...)
}

func progFromCase(c bson.D) (CrashProgram, error) {
	var p CrashProgram
	err := json.Unmarshal([]byte(asS(getD(c, "program"))), &p)
	return p, err
}

func namespacesTouched(cm CrashCommit) int {
	set := map[string]bool{}
	for _, s := range cm.Steps {
		set[s.NS] = true
	}
	return len(set)
}

func scratchDir() (string, func(), error) {
	base := os.Getenv("VERIF_WORK")
	if base == "" {
		base = os.TempDir()
	}
	dir, err := os.MkdirTemp(base, "c05-")
	if err != nil {
		return "", nil, err
	}
	return dir, func() { _ = os.RemoveAll(dir) }, nil
}

// reference runs the program in-process on a file store and returns the state
// hashes S_0..S_n and the file images F_0..F_n (F_0 = nil: no file).
// countingStore counts the Store calls that reach the file store.
type countingStore struct {
	inner lungo.Store
	calls int
}

func (c *countingStore) Load() (*lungo.Catalog, error) { return c.inner.Load() }

func (c *countingStore) Store(cat *lungo.Catalog) error {
	c.calls++
	return c.inner.Store(cat)
}

// c05ReferenceW also reports, per commit, whether it wrote the store file (a
// commit may rewrite the file without changing the state, e.g. creating an
// index that already exists).
func c05ReferenceW(prog CrashProgram, plan map[int]string) (hashes []string, images [][]byte, results []bool, wrote []bool, err error) {
	dir, cleanup, err := scratchDir()
	if err != nil {
		return nil, nil, nil, nil, err
	}
	defer cleanup()
	path := filepath.Join(dir, "db.bson")
	counter := &countingStore{inner: lungo.NewFileStore(path, 0o644)}
	var store lungo.Store = counter
	if plan != nil {
		store = &failingStore{inner: store, plan: plan}
	}
	client, engine, err := lungo.Open(context.Background(), lungo.Options{Store: store, ExpireInterval: 24 * time.Hour})
	if err != nil {
		return nil, nil, nil, nil, err
	}
	defer engine.Close()
	hashes = append(hashes, CrashStateHash(engine.Catalog()))
	images = append(images, nil)
	for i, cm := range prog.Commits {
		before := counter.calls
		e := CrashApplyCommit(client, cm, i+1)
		results = append(results, e == nil)
		wrote = append(wrote, counter.calls > before)
		hashes = append(hashes, CrashStateHash(engine.Catalog()))
		img, _ := os.ReadFile(path)
		images = append(images, img)
	}
	return hashes, images, results, wrote, nil
}

func loadHash(path string) (string, error) {
	cat, err := lungo.NewFileStore(path, 0o644).Load()
	if err != nil {
		return "", err
	}
	return CrashStateHash(cat), nil
}

// ---------------------------------------------------------------- F: store failures in-process

func genC05Store(t *rapid.T) bson.D {
	prog := genC05Program(t, 5)
	// exhaustive over the plans is done in Run; the drawn part is the program
	// and whether the commits use WithTransaction or one long-lived session
	// with the manual transaction calls
	return progToCase(prog, bson.D{{Key: "manual", Value: rapid.Bool().Draw(t, "manual")}})
}

func runC05Store(c bson.D, x *Ctx) error {
	prog, err := progFromCase(c)
	if err != nil {
		return fmt.Errorf("harness: %v", err)
	}
	n := len(prog.Commits)
	total := 1
	for i := 0; i < n; i++ {
		total *= 3
	}
	kinds := []string{"", "fail", "failAfterPersist"}
	for code := 0; code < total; code++ {
		plan := map[int]string{}
		cc := code
		for i := 1; i <= n; i++ {
			if k := kinds[cc%3]; k != "" {
				plan[i] = k
			}
			cc /= 3
		}
		if err := c05StorePlan(prog, plan, asB(getD(c, "manual")), x); err != nil {
			return fmt.Errorf("store-failure plan %v (manual session: %v): %v", plan, asB(getD(c, "manual")), err)
		}
	}
	x.Rec.ClassN("store-failure-plans", total)
	if n >= 3 {
		x.NonTrivial()
	}
	return nil
}

func c05StorePlan(prog CrashProgram, plan map[int]string, manual bool, x *Ctx) error {
	dir, cleanup, err := scratchDir()
	if err != nil {
		return fmt.Errorf("harness: %v", err)
	}
	defer cleanup()
	path := filepath.Join(dir, "db.bson")
	fs := &failingStore{inner: lungo.NewFileStore(path, 0o644), plan: plan}
	client, engine, err := lungo.Open(context.Background(), lungo.Options{Store: fs, ExpireInterval: 24 * time.Hour})
	if err != nil {
		return fmt.Errorf("harness: %v", err)
	}
	defer engine.Close()
	var sess lungo.ISession
	if manual {
		if sess, err = client.StartSession(); err != nil {
			return fmt.Errorf("harness: %v", err)
		}
		x.Class("manual-session")
	}
	acked := CrashStateHash(engine.Catalog()) // last state for which Store returned nil
	var persisted string                      // what the file holds if it differs (fail after persist)
	storeCalls := 0
	for i, cm := range prog.Commits {
		before := CrashStateHash(engine.Catalog())
		callsBefore := fs.calls
		var e error
		if manual {
			e = CrashApplyCommitManual(client, sess, cm, i+1)
		} else {
			e = CrashApplyCommit(client, cm, i+1)
		}
		if e != nil && strings.HasPrefix(e.Error(), "StartTransaction:") {
			return fmt.Errorf("commit %d: the session cannot start a transaction after the earlier commits (later commits must work): %v", i+1, e)
		}
		after := CrashStateHash(engine.Catalog())
		stored := fs.calls > callsBefore
		if stored {
			storeCalls = fs.calls
		}
		mode := ""
		if stored {
			mode = plan[fs.calls]
		}
		switch {
		case stored && mode != "":
			if e == nil {
				return fmt.Errorf("commit %d: the store failed (%s) but the commit reported success", i+1, mode)
			}
			if after != before {
				return fmt.Errorf("commit %d: the store failed (%s) but the state visible to clients changed", i+1, mode)
			}
			if mode == "failAfterPersist" {
				persisted = "ahead"
			}
		case e != nil:
			// the commit itself was rejected (e.g. unique index build): nothing changes
			if after != before {
				return fmt.Errorf("commit %d failed (%v) but the visible state changed", i+1, e)
			}
		default:
			acked = after
			if stored {
				persisted = ""
			}
		}
		// the visible state never runs ahead of the last acknowledged store
		if CrashStateHash(engine.Catalog()) != acked {
			return fmt.Errorf("after commit %d the visible state is not the last state the store acknowledged", i+1)
		}
		// a session whose commit failed is not left inside the dead
		// transaction: what it reads is what every client reads
		if manual {
			var viaSession, direct int64
			var e1, e2 error
			_ = lungo.WithSession(context.Background(), sess, func(sc lungo.ISessionContext) error {
				viaSession, e1 = client.Database("d1").Collection("a").CountDocuments(sc, bson.D{})
				return nil
			})
			direct, e2 = client.Database("d1").Collection("a").CountDocuments(context.Background(), bson.D{})
			if e1 != nil || e2 != nil || viaSession != direct {
				return fmt.Errorf("after commit %d (store mode %q) the session counts %d documents (%v), other clients %d (%v)", i+1, mode, viaSession, e1, direct, e2)
			}
		}
		// the writer slot is free: a read-only probe and the next commit work
		ctx, cancel := context.WithTimeout(context.Background(), 3*time.Second)
		txn, berr := engine.Begin(ctx, true)
		cancel()
		if berr != nil {
			return fmt.Errorf("after commit %d (store mode %q) the writer slot is not free: %v", i+1, mode, berr)
		}
		engine.Abort(txn)
	}
	_ = storeCalls
	// the file holds the last acknowledged state unless a later persist-then-fail ran ahead
	if persisted == "" {
		h, err := loadHash(path)
		if err != nil {
			return fmt.Errorf("the store file does not load: %v", err)
		}
		if h != acked {
			return fmt.Errorf("the store file does not hold the last acknowledged state")
		}
	}
	return nil
}

var propC05Store = Register(&Prop{ID: "C05", Sub: "store", Gen: genC05Store, Run: runC05Store})

func TestProp_C05_store(t *testing.T) { propC05Store.Check(t) }

// ---------------------------------------------------------------- strace based: kill points, syscall errors, power loss

type sysCall struct {
	name    string
	ordinal int // 1-based among calls of the same name
	line    string
	commit  int // commit in flight (0 = none), from BEGIN/DONE markers by position
}

var straceLine = regexp.MustCompile(`^\d+\s+(\w+)\((.*)$`)

const straceSyscalls = "openat,write,fsync,fdatasync,close,rename,renameat,renameat2,unlink,unlinkat,ftruncate,pwrite64"

type childRun struct {
	journal []string
	trace   []sysCall
	exit    error
	snaps   [][]byte
}

// runChild executes the crashchild under strace in a fresh directory.
func runChild(prog CrashProgram, inject string, keepDir func(dir string)) (*childRun, error) {
	bin := os.Getenv("VERIF_CRASHCHILD")
	if bin == "" {
		return nil, fmt.Errorf("VERIF_CRASHCHILD not set")
	}
	dir, cleanup, err := scratchDir()
	if err != nil {
		return nil, err
	}
	defer cleanup()
	data := filepath.Join(dir, "data")
	if err := os.Mkdir(data, 0o755); err != nil {
		return nil, err
	}
	pf := filepath.Join(dir, "program.json")
	b, _ := json.Marshal(prog)
	if err := os.WriteFile(pf, b, 0o644); err != nil {
		return nil, err
	}
	path := filepath.Join(data, "db.bson")
	tracePath := filepath.Join(dir, "trace.txt")
	args := []string{"-f", "-y", "-s", "0", "-e", "signal=none", "-o", tracePath, "-e", "trace=" + straceSyscalls, "-P", data, "-P", path, "-P", path + ".tmp"}
	if inject != "" {
		args = append(args, "-e", "inject="+inject)
	}
	args = append(args, bin, path, pf)
	cmd := exec.Command("strace", args...)
	var out bytes.Buffer
	cmd.Stdout = &out
	cmd.Stderr = &out
	done := make(chan error, 1)
	if err := cmd.Start(); err != nil {
		return nil, err
	}
	go func() { done <- cmd.Wait() }()
	var werr error
	select {
	case werr = <-done:
	case <-time.After(60 * time.Second):
		_ = cmd.Process.Kill()
		return nil, fmt.Errorf("child did not finish within 60 s")
	}
	r := &childRun{exit: werr}
	sc := bufio.NewScanner(&out)
	for sc.Scan() {
		l := sc.Text()
		if strings.HasPrefix(l, "STATE ") || strings.HasPrefix(l, "BEGIN ") || strings.HasPrefix(l, "DONE ") || l == "END" || strings.HasPrefix(l, "OPENERR") {
			r.journal = append(r.journal, l)
		}
	}
	tb, _ := os.ReadFile(tracePath)
	counts := map[string]int{}
	for _, l := range strings.Split(string(tb), "\n") {
		m := straceLine.FindStringSubmatch(l)
		if m == nil || strings.Contains(l, "resumed>") {
			continue
		}
		counts[m[1]]++
		r.trace = append(r.trace, sysCall{name: m[1], ordinal: counts[m[1]], line: l})
	}
	if keepDir != nil {
		keepDir(data)
	}
	return r, nil
}

func haveStrace() bool {
	_, err := exec.LookPath("strace")
	return err == nil && os.Getenv("VERIF_CRASHCHILD") != ""
}

// commitOfCall assigns each traced call to the commit whose file write it
// belongs to: a commit's calls start with the unlinkat of the temp file and end
// with the close of the directory.
func assignCommits(trace []sysCall, committing []int) int {
	ci := -1
	inCommit := false
	skipTo := 0
	for i := range trace {
		if i < skipTo {
			continue
		}
		l := trace[i].line
		if !inCommit && strings.HasPrefix(trace[i].name, "unlink") {
			ci++
			inCommit = true
		}
		if inCommit && ci < len(committing) {
			trace[i].commit = committing[ci]
		}
		if inCommit && trace[i].name == "fsync" && !strings.Contains(l, ".tmp") {
			// directory fsync: the commit's file protocol ends with the next close + 2 unlinkat
		}
		if inCommit && trace[i].name == "close" && !strings.Contains(l, ".tmp") && !strings.Contains(l, "db.bson>") {
			// closing the directory handle: what follows are the deferred temp removals
			j := i + 1
			for j < len(trace) && strings.HasPrefix(trace[j].name, "unlink") && j <= i+2 {
				if ci < len(committing) {
					trace[j].commit = committing[ci]
				}
				j++
			}
			skipTo = j
			inCommit = false
		}
	}
	return ci + 1
}

func genC05Crash(t *rapid.T) bson.D {
	prog := genC05Program(t, 6)
	return progToCase(prog, bson.D{{Key: "pick", Value: int32(rapid.IntRange(0, 1000).Draw(t, "pick"))}})
}

func runC05Crash(c bson.D, x *Ctx) error {
	if !haveStrace() {
		return fmt.Errorf("harness: strace or the crash child is not available")
	}
	prog, err := progFromCase(c)
	if err != nil {
		return fmt.Errorf("harness: %v", err)
	}
	pick := asI(getD(c, "pick"))
	tier := os.Getenv("VERIF_TIER")
	// reference states
	hashes, _, results, wrote, err := c05ReferenceW(prog, nil)
	if err != nil {
		return fmt.Errorf("harness: reference run: %v", err)
	}
	// uninjected traced run, with file images after every commit
	var images [][]byte
	base, err := runChild(prog, "", nil)
	if err != nil {
		return fmt.Errorf("harness: %v", err)
	}
	if base.exit != nil || len(base.journal) == 0 || base.journal[len(base.journal)-1] != "END" {
		return fmt.Errorf("harness: the uninjected child failed: %v %v", base.exit, base.journal)
	}
	// the child reproduces the reference states (determinism across processes)
	var committing []int // commits that actually wrote the file, in order
	prev := hashes[0]
	for i := range prog.Commits {
		want := "STATE " + strconv.Itoa(i+1) + " " + hashes[i+1]
		found := false
		for _, l := range base.journal {
			if l == want {
				found = true
			}
		}
		if !found {
			return fmt.Errorf("harness: the child's state after commit %d differs from the in-process reference", i+1)
		}
		if wrote[i] {
			committing = append(committing, i+1)
			if !results[i] {
				return fmt.Errorf("harness: commit %d of the reference run wrote the file but failed", i+1)
			}
			if hashes[i+1] == prev {
				x.Class("commit-rewrites-unchanged-state")
			}
		} else if hashes[i+1] != prev {
			return fmt.Errorf("commit %d changed the state visible to clients without writing the store file", i+1)
		}
		prev = hashes[i+1]
	}
	if groups := assignCommits(base.trace, committing); groups != len(committing) {
		return fmt.Errorf("harness: the trace shows %d writes of the store file, the reference run %d", groups, len(committing))
	}
	// images: obtained by re-running the reference per commit is costly; the
	// power-loss model only needs the bytes of the files as the child wrote
	// them, taken from an instrumented rerun below when needed
	_ = images
	// ---- static shape of every commit's file protocol (power-loss safety)
	if err := c05TraceShape(base.trace, committing); err != nil {
		return err
	}
	// ---- K: kill before the k-th file syscall, for every k (quick: a sample)
	var points []int
	for i := range base.trace {
		points = append(points, i)
	}
	if tier != "thorough" && len(points) > 14 {
		// deterministic sample of 14 points spread over the history, phase from the case
		var s []int
		step := float64(len(points)) / 14
		for j := 0; j < 14; j++ {
			s = append(s, int(float64(j)*step+float64(pick%7)*step/7)%len(points))
		}
		points = s
	}
	insideMulti := 0
	for _, k := range points {
		call := base.trace[k]
		inj := fmt.Sprintf("%s:signal=SIGKILL:when=%d", call.name, call.ordinal)
		var gotHash string
		var loadErr error
		var tmpLeft bool
		r, err := runChild(prog, inj, func(dir string) {
			gotHash, loadErr = loadHash(filepath.Join(dir, "db.bson"))
			_, e := os.Stat(filepath.Join(dir, "db.bson.tmp"))
			tmpLeft = e == nil
		})
		if err != nil {
			return fmt.Errorf("harness: %v", err)
		}
		if len(r.journal) > 0 && r.journal[len(r.journal)-1] == "END" {
			return fmt.Errorf("harness: kill point %d (%s #%d) did not kill the child", k, call.name, call.ordinal)
		}
		// which commit was in flight, which returned
		inflight, lastDone := 0, 0
		for _, l := range r.journal {
			var n int
			if _, e := fmt.Sscanf(l, "BEGIN %d", &n); e == nil {
				inflight = n
			}
			if _, e := fmt.Sscanf(l, "DONE %d", &n); e == nil {
				lastDone = n
				inflight = 0
			}
		}
		if loadErr != nil {
			return fmt.Errorf("killed before file syscall %d (%s) during commit %d: the store file does not load: %v", k+1, strings.TrimSpace(call.line), inflight, loadErr)
		}
		ok := gotHash == hashes[lastDone]
		if inflight > 0 && gotHash == hashes[inflight] {
			ok = true
		}
		if !ok {
			return fmt.Errorf("killed before file syscall %d (%s): commit %d had returned, commit %d was in flight, but the file loads as neither of their states (old or new)", k+1, strings.TrimSpace(call.line), lastDone, inflight)
		}
		_ = tmpLeft
		x.Class("kill-point")
		if inflight > 0 && namespacesTouched(prog.Commits[inflight-1]) >= 2 && call.commit == inflight {
			insideMulti++
		}
	}
	// ---- a stale temp file (left by a kill after the write) is removed by the next write
	// find a kill point right before a renameat
	for k, call := range base.trace {
		if !strings.HasPrefix(call.name, "rename") {
			continue
		}
		inj := fmt.Sprintf("%s:signal=SIGKILL:when=%d", call.name, call.ordinal)
		var staleErr error
		_, err := runChild(prog, inj, func(dir string) {
			path := filepath.Join(dir, "db.bson")
			if _, e := os.Stat(path + ".tmp"); e != nil {
				staleErr = fmt.Errorf("harness: expected a stale temp file after a kill before rename")
				return
			}
			// restart: open the store, commit something, reload
			client, engine, e := lungo.Open(context.Background(), lungo.Options{Store: lungo.NewFileStore(path, 0o644), ExpireInterval: 24 * time.Hour})
			if e != nil {
				staleErr = fmt.Errorf("reopening after the crash failed: %v", e)
				return
			}
			if _, e := client.Database("z").Collection("z").InsertOne(context.Background(), bson.D{{Key: "_id", Value: int32(1)}}); e != nil {
				staleErr = fmt.Errorf("the first commit after a crash that left a stale temp file failed: %v", e)
			}
			want := CrashStateHash(engine.Catalog())
			engine.Close()
			if staleErr != nil {
				return
			}
			got, e := loadHash(path)
			if e != nil || got != want {
				staleErr = fmt.Errorf("after a crash that left a stale temp file the next commit is not what the file holds (load error: %v)", e)
				return
			}
			if _, e := os.Stat(path + ".tmp"); e == nil {
				staleErr = fmt.Errorf("the temp file is still there after a successful commit")
			}
		})
		if err != nil {
			return fmt.Errorf("harness: %v", err)
		}
		if staleErr != nil {
			return fmt.Errorf("kill before %s (file syscall %d): %v", call.name, k+1, staleErr)
		}
		x.Class("stale-temp-recovery")
		break
	}
	// ---- E: syscall errors
	errnos := []string{"EIO", "ENOSPC", "EACCES"}
	tried := 0
	for k, call := range base.trace {
		if call.commit == 0 || call.name == "close" && false {
			continue
		}
		if (k+pick)%5 != 0 && tier != "thorough" {
			continue
		}
		if strings.HasPrefix(call.name, "unlink") {
			continue // ENOENT is the normal result there; other errors on remove are covered by the write errors
		}
		errno := errnos[(k+pick)%len(errnos)]
		inj := fmt.Sprintf("%s:error=%s:when=%d", call.name, errno, call.ordinal)
		var finalHash string
		var finalErr error
		var tmpLeft bool
		r, err := runChild(prog, inj, func(dir string) {
			finalHash, finalErr = loadHash(filepath.Join(dir, "db.bson"))
			_, e := os.Stat(filepath.Join(dir, "db.bson.tmp"))
			tmpLeft = e == nil
		})
		if err != nil {
			return fmt.Errorf("harness: %v", err)
		}
		if len(r.journal) == 0 || r.journal[len(r.journal)-1] != "END" {
			return fmt.Errorf("%s on %s (file syscall %d): the child did not finish: %v", errno, call.name, k+1, r.journal)
		}
		// the error must have been delivered to the call it was meant for:
		// strace counts "when=" per thread, and the ordinal was taken from the
		// undisturbed run
		delivered := false
		for _, tc := range r.trace {
			if strings.Contains(tc.line, "(INJECTED)") && tc.name == call.name && tc.ordinal == call.ordinal {
				delivered = true
			}
		}
		if !delivered {
			x.Class("injection-not-delivered-as-planned")
			continue
		}
		j := call.commit
		doneLine := ""
		states := map[int]string{}
		for _, l := range r.journal {
			var n int
			var h string
			if strings.HasPrefix(l, fmt.Sprintf("DONE %d ", j)) {
				doneLine = l
			}
			if _, e := fmt.Sscanf(l, "STATE %d %s", &n, &h); e == nil {
				states[n] = h
			}
		}
		dirHandle := !strings.Contains(call.line, ".tmp") && !strings.Contains(call.line, "db.bson>") && !strings.Contains(call.line, "db.bson\"")
		if call.name == "close" && dirHandle {
			// the error of closing the directory handle is (legitimately) ignored
			if !strings.Contains(doneLine, " ok") || finalErr != nil || finalHash != hashes[len(prog.Commits)] {
				return fmt.Errorf("%s injected into the close of the directory handle during commit %d: the history did not complete normally", errno, j)
			}
			x.Class("syscall-error-ignored:close(dir)")
			continue
		}
		if !strings.Contains(doneLine, " err") {
			return fmt.Errorf("%s injected into %s (%s) during commit %d but the commit reported success", errno, call.name, strings.TrimSpace(call.line), j)
		}
		// the visible state stays at the last persisted one
		if states[j] != states[j-1] {
			return fmt.Errorf("%s injected into %s during commit %d: the commit failed but the state visible to clients changed", errno, call.name, j)
		}
		// later commits work and the file ends as the last state
		if finalErr != nil {
			return fmt.Errorf("%s injected into %s during commit %d: afterwards the store file does not load: %v", errno, call.name, j, finalErr)
		}
		last := len(prog.Commits)
		laterStored := false
		for m := j + 1; m <= last; m++ {
			if states[m] != states[m-1] {
				laterStored = true
			}
		}
		if laterStored {
			if finalHash != states[last] {
				return fmt.Errorf("%s injected into %s during commit %d: later commits succeeded but the file does not hold the final state", errno, call.name, j)
			}
			if tmpLeft {
				return fmt.Errorf("%s injected into %s during commit %d: a temp file remains after later successful commits", errno, call.name, j)
			}
		} else {
			// old state, or (only when the failure struck after the rename) the new one
			afterRename := dirHandle
			if !(finalHash == states[j-1] || (afterRename && finalHash == hashes[j])) {
				return fmt.Errorf("%s injected into %s during commit %d: the file holds neither the last persisted state nor (after the rename) the new one", errno, call.name, j)
			}
		}
		x.Class("syscall-error:" + call.name)
		tried++
	}
	x.Rec.ClassN("kill-points", len(points))
	if insideMulti > 0 {
		x.NonTrivial()
	}
	return nil
}

// c05TraceShape checks, per commit, the protocol that makes the write safe
// under the POSIX-style power-loss model: data is written only to the temp
// file, the temp file is fsynced before it is renamed over the store file, and
// the directory is fsynced after the rename (before the commit returns). It
// then enumerates the crash states of the model.
func c05TraceShape(trace []sysCall, committing []int) error {
	type st struct {
		wroteTmp, syncedTmp, renamed, syncedDir bool
		writesAfterSync                         bool
	}
	per := map[int]*st{}
	for _, c := range trace {
		if c.commit == 0 {
			continue
		}
		s := per[c.commit]
		if s == nil {
			s = &st{}
			per[c.commit] = s
		}
		l := c.line
		switch {
		case c.name == "write" || c.name == "pwrite64":
			if !strings.Contains(l, "db.bson.tmp>") {
				return fmt.Errorf("commit %d writes data directly into %s instead of a temp file (a crash during the write tears the store file)", c.commit, l)
			}
			s.wroteTmp = true
			if s.syncedTmp {
				s.writesAfterSync = true
			}
		case c.name == "openat" && strings.Contains(l, "db.bson\"") && (strings.Contains(l, "O_WRONLY") || strings.Contains(l, "O_RDWR")) && !strings.Contains(l, ".tmp"):
			return fmt.Errorf("commit %d opens the store file itself for writing: %s", c.commit, l)
		case (c.name == "fsync" || c.name == "fdatasync") && strings.Contains(l, "db.bson.tmp>"):
			s.syncedTmp = true
		case strings.HasPrefix(c.name, "rename"):
			if !s.syncedTmp || s.writesAfterSync {
				return fmt.Errorf("power loss: commit %d renames the temp file over the store file before its data was fsynced; after a power cut the store file may be empty or truncated", c.commit)
			}
			s.renamed = true
		case (c.name == "fsync" || c.name == "fdatasync") && !strings.Contains(l, ".tmp>") && !strings.Contains(l, "db.bson>"):
			if s.renamed {
				s.syncedDir = true
			}
		}
	}
	for _, j := range committing {
		s := per[j]
		if s == nil || !s.wroteTmp || !s.renamed {
			return fmt.Errorf("harness: could not recognise the file protocol of commit %d in the trace", j)
		}
		if !s.syncedDir {
			return fmt.Errorf("power loss: commit %d returns without fsyncing the directory after the rename; a power cut can lose a commit that was reported successful", j)
		}
	}
	return nil
}

var propC05Crash = Register(&Prop{ID: "C05", Sub: "crash", Gen: genC05Crash, Run: runC05Crash})

func TestProp_C05_crash(t *testing.T) {
	if !haveStrace() {
		t.Skip("strace / crash child not available")
	}
	propC05Crash.Check(t)
}
