package props

import (
	"fmt"
	"math"
	"sort"
	"strings"
	"testing"

	"github.com/256dpi/lungo"
	"go.mongodb.org/mongo-driver/bson"
	"go.mongodb.org/mongo-driver/bson/primitive"
	"pgregory.net/rapid"

	"verifharness/gen"
)

// C06: closing a file-backed database and opening it again yields the
// identical database.

var fragilePool = []interface{}{
	math.NaN(), math.Copysign(0, -1), math.Inf(1), math.Inf(-1), float64(1), int32(1), int64(1), int64(math.MaxInt64), int64(math.MinInt64),
	gen.D128("1.0"), gen.D128("1"), gen.D128("1E+23"), gen.D128("NaN"), gen.D128("-Infinity"), gen.D128("1E+6000"), gen.D128("1E-6000"), gen.D128("-0"),
	bson.A{}, bson.D{}, bson.A{bson.A{}}, bson.A{bson.A{int32(1), bson.A{"x"}}, bson.D{}}, bson.D{{Key: "", Value: int32(1)}},
	primitive.Binary{Subtype: 2, Data: []byte{1, 2, 3}}, primitive.Binary{Subtype: 0, Data: []byte{}}, primitive.Binary{Subtype: 128, Data: []byte{0}},
	primitive.Timestamp{T: 5, I: 7}, primitive.Regex{Pattern: "a.*", Options: "i"}, nil, "", primitive.DateTime(-1), primitive.DateTime(0), gen.OID1,
}

func persistDocGen(t *rapid.T, p *hProfile) bson.D {
	d := bson.D{}
	for _, k := range []string{"a", "b", "c"} {
		switch rapid.IntRange(0, 9).Draw(t, "fk") {
		case 0:
		case 1, 2, 3:
			d = append(d, bson.E{Key: k, Value: p.cfg.Value(3, false).Draw(t, "fv")})
		case 4, 5:
			d = append(d, bson.E{Key: k, Value: rapid.SampledFrom(collideVals).Draw(t, "tv")})
		default:
			d = append(d, bson.E{Key: k, Value: rapid.SampledFrom(fragilePool).Draw(t, "fragile")})
		}
	}
	return d
}

var profPersist = &hProfile{name: "persist", cfg: gen.Wide, weights: writeWeights(map[string]int{"reopen": 5, "litter": 2, "age": 1, "createIndex": 9, "find": 1, "insertOne": 14, "insertMany": 8, "dropColl": 3, "dropDB": 2}), nss: []string{"d1.c1", "d1.c1", "d1.c2", "d2.c1", "d1.fs.files"}, docGen: persistDocGen, idPool: baseIDs, ttl: true, tinyVals: nil, emptyPartial: true}

func isFragile(v interface{}) bool {
	switch x := v.(type) {
	case float64:
		return math.IsNaN(x) || math.IsInf(x, 0) || (x == 0 && math.Signbit(x))
	case primitive.Decimal128:
		return true
	case primitive.Binary:
		return x.Subtype == 2 || len(x.Data) == 0
	case bson.A:
		if len(x) == 0 {
			return true
		}
		for _, e := range x {
			if _, nested := e.(bson.A); nested {
				return true
			}
		}
	case bson.D:
		return len(x) == 0
	}
	return false
}

type oraclePersist struct {
	catA      *lungo.Catalog
	dumpA     string
	reopens   int
	ntReopens int
}

func (o *oraclePersist) before(r *hRun, step bson.D) error {
	if asS(getD(step, "op")) != "reopen" {
		return nil
	}
	o.catA = r.env.engine.Catalog()
	o.dumpA = catalogDumpOpts(o.catA, false, true)
	return nil
}

func (o *oraclePersist) after(r *hRun, step, res bson.D) error {
	if asS(getD(step, "op")) != "reopen" {
		return nil
	}
	o.reopens++
	catB := r.env.engine.Catalog()
	dumpB := catalogDumpOpts(catB, false, true)
	if dumpB != o.dumpA {
		return fmt.Errorf("the reopened database differs from the one that was closed:\n--- before close\n%s--- after reopen\n%s", o.dumpA, dumpB)
	}
	// the reloaded indexes are coherent
	if err := checkIndexCoherence(catB, r.x, nil); err != nil {
		return fmt.Errorf("after reopen: %v", err)
	}
	// reloading twice is the same as once
	if err := r.env.reopen(); err != nil {
		return fmt.Errorf("second reopen failed: %v", err)
	}
	if d := catalogDumpOpts(r.env.engine.Catalog(), false, true); d != o.dumpA {
		return fmt.Errorf("reopening twice gives a different database than reopening once")
	}
	// behavioural probes: the same writes against the pre-close state and the
	// reloaded state give the same results and the same database
	eA, err := openFrom(o.catA)
	if err != nil {
		return fmt.Errorf("harness: %v", err)
	}
	defer eA.close()
	eB, err := openFrom(r.env.engine.Catalog())
	if err != nil {
		return fmt.Errorf("harness: %v", err)
	}
	defer eB.close()
	nsCount, optIdx, fragile := 0, 0, 0
	for _, h := range nsList(o.catA) {
		nsCount++
		c := o.catA.Namespaces[h]
		for n, ix := range c.Indexes {
			cfg := ix.Config()
			if n != "_id_" && (cfg.Unique || cfg.Partial != nil || cfg.Expiry != 0 || len(*cfg.Key) > 1) {
				optIdx++
			}
		}
		var probes []bson.D
		for i, d := range c.Documents.List {
			if hasKind(*d, isFragile) {
				fragile++
			}
			if i >= 3 {
				continue
			}
			// same fields under a new _id (collides with unique indexes),
			// and the same _id again (collides with _id_)
			body := bson.D{}
			for _, e := range *d {
				if e.Key != "_id" {
					body = append(body, e)
				}
			}
			probes = append(probes,
				bson.D{{Key: "op", Value: "insertOne"}, {Key: "ns", Value: h.String()}, {Key: "doc", Value: withID(fmt.Sprintf("probe%d", i), deepCopyBin(body).(bson.D))}},
				bson.D{{Key: "op", Value: "insertOne"}, {Key: "ns", Value: h.String()}, {Key: "doc", Value: deepCopyBin(*d).(bson.D)}},
				bson.D{{Key: "op", Value: "updateOne"}, {Key: "ns", Value: h.String()}, {Key: "filter", Value: bson.D{{Key: "_id", Value: getD(*d, "_id")}}}, {Key: "update", Value: bson.D{{Key: "$set", Value: bson.D{{Key: "probe", Value: int32(1)}}}}}, {Key: "upsert", Value: false}},
			)
		}
		probes = append(probes, bson.D{{Key: "op", Value: "listIndexes"}, {Key: "ns", Value: h.String()}})
		for _, ps := range probes {
			ra, e1 := eA.execStep(ps)
			rb, e2 := eB.execStep(ps)
			if e1 != nil || e2 != nil {
				return fmt.Errorf("probe %s panicked: %v / %v", show(ps), e1, e2)
			}
			if !equalUpToFieldOrder(ra, rb) {
				return fmt.Errorf("probe %s behaves differently before close (%s) and after reopen (%s)", show(ps), show(ra), show(rb))
			}
		}
	}
	if da, db := catalogDumpOpts(eA.engine.Catalog(), true, true), catalogDumpOpts(eB.engine.Catalog(), true, true); da != db {
		return fmt.Errorf("after identical probe writes the pre-close and the reopened database differ:\n--- pre-close\n%s--- reopened\n%s", da, db)
	}
	// a TTL pass removes the same documents on both; the pass visits the
	// collections in no particular order, so the events it appends are
	// compared as a set
	oplogLen := len(eA.engine.Catalog().Namespaces[lungo.Oplog].Documents.List)
	for _, e := range []*hEnv{eA, eB} {
		txn, err := e.engine.Begin(nil, true)
		if err != nil {
			return fmt.Errorf("harness: %v", err)
		}
		if err := txn.Expire(); err != nil {
			e.engine.Abort(txn)
			return fmt.Errorf("expiry pass failed: %v", err)
		}
		if err := e.engine.Commit(txn); err != nil {
			return fmt.Errorf("harness: %v", err)
		}
	}
	if da, db := sortOplogTail(catalogDumpOpts(eA.engine.Catalog(), true, true), oplogLen), sortOplogTail(catalogDumpOpts(eB.engine.Catalog(), true, true), oplogLen); da != db {
		return fmt.Errorf("after identical probe writes and an expiry pass the pre-close and the reopened database differ:\n--- pre-close\n%s--- reopened\n%s", da, db)
	}
	if nsCount >= 2 && optIdx >= 1 && fragile >= 1 {
		o.ntReopens++
	}
	return nil
}

func (o *oraclePersist) finish(r *hRun) error {
	// always end with a reopen so every history is checked at least once
	step := bson.D{{Key: "op", Value: "reopen"}, {Key: "ns", Value: "d1.c1"}}
	if err := o.before(r, step); err != nil {
		return err
	}
	res, perr := r.env.execStep(step)
	if perr != nil {
		return perr
	}
	return o.after(r, step, res)
}

var propC06 = Register(&Prop{ID: "C06", Sub: "history",
	Live: liveHistoryOn(openFile, profPersist, func() []hOracle { return []hOracle{&oraclePersist{}} }, 6, 30, func(r *hRun) bool { return r.oracles[0].(*oraclePersist).ntReopens >= 1 }),
	Run:  runHistoryOn(openFile, func() []hOracle { return []hOracle{&oraclePersist{}} }, func(r *hRun) bool { return r.oracles[0].(*oraclePersist).ntReopens >= 1 }),
})

func TestProp_C06_history(t *testing.T) { propC06.Check(t) }

// sortOplogTail sorts the change-log events of a normalised dump from
// position from on (events appended by one expiry pass have no defined order
// across collections).
func sortOplogTail(dump string, from int) string {
	lines := strings.Split(dump, "\n")
	start := -1
	for i, l := range lines {
		if strings.HasPrefix(l, "NS "+lungo.Oplog.String()+" ") {
			start = i + 1
			break
		}
	}
	if start < 0 {
		return dump
	}
	end := start
	for end < len(lines) && strings.HasPrefix(lines[end], " D ") {
		end++
	}
	if start+from < end {
		sort.Strings(lines[start+from : end])
	}
	return strings.Join(lines, "\n")
}
