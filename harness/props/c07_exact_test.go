package props

import (
	"context"
	"fmt"
	"testing"

	"github.com/256dpi/lungo"
	"go.mongodb.org/mongo-driver/bson"
	"go.mongodb.org/mongo-driver/mongo"
	"go.mongodb.org/mongo-driver/mongo/options"
	"pgregory.net/rapid"

	"verifharness/gen"
	"verifharness/ref"
)

// C07 exact: multi-document writes against a unique index are rejected for
// uniqueness exactly when the resulting collection would hold two documents
// with the same key. The case is a small collection whose field k holds
// distinct numbers (plus a few values of other types), a unique index on k
// (optionally partial or compound) and one UpdateMany / UpdateOne / ReplaceOne
// that moves keys: shifts (the new key of one document is the old key of
// another), swaps, collapses onto one value, moves in and out of the partial
// filter. The expected outcome comes from the reference model (final-state
// uniqueness over all documents).

func genC07Exact(t *rapid.T) bson.D {
	n := rapid.IntRange(2, 6).Draw(t, "n")
	perm := rapid.Permutation([]int{1, 2, 3, 4, 5, 6, 7, 8}).Draw(t, "perm")
	docs := bson.A{}
	for i := 0; i < n; i++ {
		var kv interface{}
		switch rapid.IntRange(0, 9).Draw(t, "kt") {
		case 0:
			kv = int64(perm[i])
		case 1:
			kv = float64(perm[i])
		case 2:
			kv = gen.D128(fmt.Sprint(perm[i]))
		case 3:
			kv = rapid.SampledFrom([]interface{}{"x", nil, true, bson.A{int32(perm[i]), int32(perm[i] + 10)}}).Draw(t, "odd")
		default:
			kv = int32(perm[i])
		}
		d := bson.D{{Key: "_id", Value: int32(i)}, {Key: "g", Value: int32(i % 2)}}
		if kv != nil || rapid.Bool().Draw(t, "nullk") {
			d = append(d, bson.E{Key: "k", Value: kv})
		}
		docs = append(docs, d)
	}
	idx := rapid.SampledFrom([]string{"plain", "plain", "partial", "compound", "desc"}).Draw(t, "idx")
	filter := rapid.SampledFrom([]bson.D{
		{},
		{{Key: "k", Value: bson.D{{Key: "$gte", Value: int32(1)}, {Key: "$not", Value: bson.D{{Key: "$type", Value: "array"}}}}}},
		{{Key: "k", Value: bson.D{{Key: "$gte", Value: int32(3)}}}},
		{{Key: "g", Value: int32(1)}},
		{{Key: "g", Value: int32(0)}},
		{{Key: "_id", Value: bson.D{{Key: "$lte", Value: int32(2)}}}},
	}).Draw(t, "filter")
	upd := rapid.SampledFrom([]bson.D{
		{{Key: "$inc", Value: bson.D{{Key: "k", Value: int32(1)}}}},
		{{Key: "$inc", Value: bson.D{{Key: "k", Value: int32(-1)}}}},
		{{Key: "$inc", Value: bson.D{{Key: "k", Value: int64(2)}}}},
		{{Key: "$mul", Value: bson.D{{Key: "k", Value: int32(2)}}}},
		{{Key: "$bit", Value: bson.D{{Key: "k", Value: bson.D{{Key: "xor", Value: int32(1)}}}}}},
		{{Key: "$bit", Value: bson.D{{Key: "k", Value: bson.D{{Key: "xor", Value: int32(3)}}}}}},
		{{Key: "$set", Value: bson.D{{Key: "k", Value: int32(4)}}}},
		{{Key: "$max", Value: bson.D{{Key: "k", Value: int32(3)}}}},
		{{Key: "$min", Value: bson.D{{Key: "k", Value: int32(2)}}}},
		{{Key: "$unset", Value: bson.D{{Key: "k", Value: ""}}}},
		{{Key: "$inc", Value: bson.D{{Key: "g", Value: int32(1)}}}},
		{{Key: "$inc", Value: bson.D{{Key: "k", Value: int32(1)}, {Key: "g", Value: int32(1)}}}},
	}).Draw(t, "update")
	call := rapid.SampledFrom([]string{"updateMany", "updateMany", "updateMany", "updateOne", "replaceOne", "bulkUpdateMany"}).Draw(t, "call")
	repl := bson.D{{Key: "g", Value: int32(rapid.IntRange(0, 1).Draw(t, "rg"))}, {Key: "k", Value: int32(rapid.IntRange(1, 8).Draw(t, "rk"))}}
	return bson.D{{Key: "docs", Value: docs}, {Key: "index", Value: idx}, {Key: "filter", Value: filter}, {Key: "update", Value: upd}, {Key: "call", Value: call}, {Key: "repl", Value: repl}}
}

func runC07Exact(c bson.D, x *Ctx) (err error) {
	defer func() {
		if p := recover(); p != nil {
			err = fmt.Errorf("panic: %v", p)
		}
	}()
	client, engine, e := newMemEngine()
	if e != nil {
		return fmt.Errorf("harness: %v", e)
	}
	defer engine.Close()
	ctx := context.Background()
	coll := client.Database("db").Collection("c")
	key := bson.D{{Key: "k", Value: int32(1)}}
	def := ref.MIndex{Key: key, Unique: true}
	io := options.Index().SetUnique(true)
	switch asS(getD(c, "index")) {
	case "partial":
		def.Partial = bson.D{{Key: "g", Value: int32(1)}}
		io.SetPartialFilterExpression(bson.D{{Key: "g", Value: int32(1)}})
	case "compound":
		key = bson.D{{Key: "g", Value: int32(1)}, {Key: "k", Value: int32(1)}}
		def.Key = key
	case "desc":
		key = bson.D{{Key: "k", Value: int32(-1)}}
		def.Key = key
	}
	// the index first, then the documents: the ones the index rejects are
	// simply not part of the collection (on both sides)
	if _, e := coll.Indexes().CreateOne(ctx, mongo.IndexModel{Keys: key, Options: io}); e != nil {
		return fmt.Errorf("harness: creating the unique index failed: %v", e)
	}
	m := ref.NewModel()
	if _, st := m.CreateIndex("db.c", "", def); st != ref.OK {
		return fmt.Errorf("harness: reference index: %v", st)
	}
	for _, dv := range asA(getD(c, "docs")) {
		d := asD(dv)
		_, le := coll.InsertOne(ctx, copyD(d))
		mr, st := m.Insert("db.c", d, nil)
		if st != ref.OK {
			x.Class("insert-outside-reference")
			return nil
		}
		if (le != nil) != (mr.Err != "") {
			return fmt.Errorf("insert of %s: lungo %v, reference %q", show(d), le, mr.Err)
		}
	}
	filter, upd, repl := asD(getD(c, "filter")), asD(getD(c, "update")), asD(getD(c, "repl"))
	var lerr error
	var mres ref.Res
	var st ref.Status
	call := asS(getD(c, "call"))
	switch call {
	case "updateMany":
		_, lerr = coll.UpdateMany(ctx, copyD(filter), copyD(upd))
		mres, _, _, st = m.Update("db.c", ref.UpdateArgs{Filter: filter, Update: upd, Many: true})
	case "bulkUpdateMany":
		_, lerr = coll.BulkWrite(ctx, []mongo.WriteModel{mongo.NewUpdateManyModel().SetFilter(copyD(filter)).SetUpdate(copyD(upd))})
		mres, _, _, st = m.Update("db.c", ref.UpdateArgs{Filter: filter, Update: upd, Many: true})
	case "updateOne":
		_, lerr = coll.UpdateOne(ctx, copyD(filter), copyD(upd))
		mres, _, _, st = m.Update("db.c", ref.UpdateArgs{Filter: filter, Update: upd})
	default:
		_, lerr = coll.ReplaceOne(ctx, copyD(filter), copyD(repl))
		mres, _, _, st = m.Replace("db.c", ref.ReplaceArgs{Filter: filter, Repl: repl})
	}
	if st != ref.OK {
		x.Class("outside-reference")
		return nil
	}
	lclass := ""
	if lerr != nil {
		lclass = "other"
		if lungo.IsUniquenessError(lerr) {
			lclass = "uniq"
		}
	}
	if (lclass == "uniq") != (mres.Err == "uniq") {
		return fmt.Errorf("%s(%s, %s) with a unique index %s over %s: lungo %q (%v), the resulting collection %s", call, show(filter), show(upd), show(key), show(getD(c, "docs")), lclass, lerr, map[bool]string{true: "would hold a duplicate key", false: "holds no duplicate key"}[mres.Err == "uniq"])
	}
	// and the contents agree
	got, ferr := findDocs(coll, bson.D{})
	if ferr != nil {
		return ferr
	}
	want := m.Colls["db.c"].Docs
	if len(got) != len(want) {
		return fmt.Errorf("%d documents after the call, the reference has %d", len(got), len(want))
	}
	for i := range got {
		if !equalUpToFieldOrder(got[i], want[i]) {
			return fmt.Errorf("after the call document %d is %s, the reference has %s", i, show(got[i]), show(want[i]))
		}
	}
	x.Class("outcome:" + call + ":" + lclass)
	if mres.Matched >= 2 || lclass == "uniq" {
		x.NonTrivial()
	}
	return nil
}

var propC07Exact = Register(&Prop{ID: "C07", Sub: "exact", Gen: genC07Exact, Run: runC07Exact})

func TestProp_C07_exact(t *testing.T) { propC07Exact.Check(t) }
