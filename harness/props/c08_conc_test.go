package props

import (
	"context"
	"fmt"
	"runtime"
	"sync"
	"sync/atomic"
	"testing"
	"time"

	"github.com/256dpi/lungo"
	"go.mongodb.org/mongo-driver/bson"
	"pgregory.net/rapid"
)

// C08 concurrent: with several writers running at once the change log is still
// the complete record of the committed changes: every acknowledged write has
// its event, the events replayed from the empty database reproduce the final
// contents, and nothing acknowledged is missing from either. The schedule is
// perturbed through the engine's hook points by a generated decision tape.

func genC08Conc(t *rapid.T) bson.D {
	writers := bson.A{}
	for w, nw := 0, rapid.IntRange(2, 4).Draw(t, "writers"); w < nw; w++ {
		ops := bson.A{}
		for i, n := 0, rapid.IntRange(2, 8).Draw(t, "nops"); i < n; i++ {
			ops = append(ops, bson.D{{Key: "kind", Value: rapid.SampledFrom([]string{"insert", "insert", "inc", "txn", "delete"}).Draw(t, "kind")}, {Key: "ns", Value: rapid.SampledFrom([]string{"d1.c1", "d1.c1", "d1.c2"}).Draw(t, "ns")}})
		}
		writers = append(writers, ops)
	}
	tape := bson.A{}
	for i, m := 0, rapid.IntRange(0, 120).Draw(t, "tapelen"); i < m; i++ {
		tape = append(tape, int32(rapid.SampledFrom([]int{0, 0, 1, 2, 2, 3}).Draw(t, "tape")))
	}
	return bson.D{{Key: "writers", Value: writers}, {Key: "tape", Value: tape}, {Key: "procs", Value: int32(rapid.SampledFrom([]int{2, 4, 16}).Draw(t, "procs"))}}
}

func runC08Conc(c bson.D, x *Ctx) error {
	old := runtime.GOMAXPROCS(asI(getD(c, "procs")))
	defer runtime.GOMAXPROCS(old)
	env, err := openMem()
	if err != nil {
		return fmt.Errorf("harness: %v", err)
	}
	defer env.close()
	var tape []int
	for _, v := range asA(getD(c, "tape")) {
		tape = append(tape, asI(v))
	}
	var tpos int64
	hook := func(point string) {
		i := atomic.AddInt64(&tpos, 1) - 1
		if int(i) >= len(tape) {
			return
		}
		switch tape[i] {
		case 1:
			runtime.Gosched()
		case 2:
			time.Sleep(30 * time.Microsecond)
		case 3:
			time.Sleep(time.Millisecond)
		}
	}
	lungo.VerifHook.Store(&hook)
	defer lungo.VerifHook.Store(nil)
	o := &oracleOplog{}
	r := &hRun{env: env, x: x, effectiveWrites: map[string]int{}}
	if err := o.before(r, bson.D{}); err != nil {
		return err
	}
	var mu sync.Mutex
	present := map[string]string{} // acknowledged and not deleted: id -> ns
	var ackEvents int64
	var firstErr atomic.Value
	var wg sync.WaitGroup
	ctx := context.Background()
	for w, wv := range asA(getD(c, "writers")) {
		wg.Add(1)
		go func(w int, ops bson.A) {
			defer wg.Done()
			defer func() {
				if p := recover(); p != nil {
					firstErr.Store(fmt.Sprintf("writer %d panicked: %v", w, p))
				}
			}()
			sess, _ := env.client.StartSession()
			var mine []string // ids this writer inserted and has not deleted
			nsOf := map[string]string{}
			ack := func(id, ns string, events int64) {
				mu.Lock()
				present[id] = ns
				mu.Unlock()
				atomic.AddInt64(&ackEvents, events)
			}
			for i, ov := range ops {
				od := asD(ov)
				ns := asS(getD(od, "ns"))
				id := fmt.Sprintf("w%d-%d", w, i)
				switch asS(getD(od, "kind")) {
				case "insert":
					if _, err := env.coll(ns).InsertOne(ctx, bson.D{{Key: "_id", Value: id}, {Key: "n", Value: int32(0)}}); err != nil {
						firstErr.Store(fmt.Sprintf("insert %s failed: %v", id, err))
						return
					}
					mine = append(mine, id)
					nsOf[id] = ns
					ack(id, ns, 1)
				case "inc":
					if len(mine) == 0 {
						continue
					}
					t := mine[len(mine)-1]
					res, err := env.coll(nsOf[t]).UpdateOne(ctx, bson.D{{Key: "_id", Value: t}}, bson.D{{Key: "$inc", Value: bson.D{{Key: "n", Value: int32(1)}}}})
					if err != nil || res.ModifiedCount != 1 {
						firstErr.Store(fmt.Sprintf("update of the acknowledged document %s: %v, %v", t, res, err))
						return
					}
					atomic.AddInt64(&ackEvents, 1)
				case "delete":
					if len(mine) == 0 {
						continue
					}
					t := mine[0]
					mine = mine[1:]
					res, err := env.coll(nsOf[t]).DeleteOne(ctx, bson.D{{Key: "_id", Value: t}})
					if err != nil || res.DeletedCount != 1 {
						firstErr.Store(fmt.Sprintf("delete of the acknowledged document %s: %v, %v", t, res, err))
						return
					}
					mu.Lock()
					delete(present, t)
					mu.Unlock()
					atomic.AddInt64(&ackEvents, 1)
				case "txn":
					id2 := id + "b"
					_, err := sess.WithTransaction(ctx, func(sc lungo.ISessionContext) (interface{}, error) {
						if _, err := env.coll(ns).InsertOne(sc, bson.D{{Key: "_id", Value: id}, {Key: "n", Value: int32(0)}}); err != nil {
							return nil, err
						}
						_, err := env.coll("d1.c2").InsertOne(sc, bson.D{{Key: "_id", Value: id2}, {Key: "n", Value: int32(0)}})
						return nil, err
					})
					if err != nil {
						firstErr.Store(fmt.Sprintf("transaction %s failed: %v", id, err))
						return
					}
					mine = append(mine, id, id2)
					nsOf[id], nsOf[id2] = ns, "d1.c2"
					ack(id, ns, 1)
					ack(id2, "d1.c2", 1)
				}
			}
		}(w, asA(wv))
	}
	done := make(chan struct{})
	go func() { wg.Wait(); close(done) }()
	select {
	case <-done:
	case <-time.After(60 * time.Second):
		return fmt.Errorf("the writers did not finish within 60 s")
	}
	lungo.VerifHook.Store(nil)
	if e := firstErr.Load(); e != nil {
		return fmt.Errorf("%v", e)
	}
	// the log replays to the final contents (ids increasing, descriptions faithful)
	if err := o.after(r, bson.D{{Key: "op", Value: "concurrent"}}, bson.D{{Key: "err", Value: ""}}); err != nil {
		return err
	}
	cat := env.engine.Catalog()
	if n := int64(len(cat.Namespaces[lungo.Oplog].Documents.List)); n != atomic.LoadInt64(&ackEvents) {
		return fmt.Errorf("the change log holds %d events, the acknowledged writes account for %d", n, ackEvents)
	}
	for id, ns := range present {
		n, err := env.coll(ns).CountDocuments(ctx, bson.D{{Key: "_id", Value: id}})
		if err != nil || n != 1 {
			return fmt.Errorf("the acknowledged document %s is stored %d times in %s (%v)", id, n, ns, err)
		}
	}
	if len(asA(getD(c, "writers"))) >= 2 && ackEvents >= 4 {
		x.NonTrivial()
	}
	return nil
}

var propC08Conc = Register(&Prop{ID: "C08", Sub: "concurrent", Gen: genC08Conc, Run: runC08Conc})

func TestProp_C08_concurrent(t *testing.T) { propC08Conc.Check(t) }
