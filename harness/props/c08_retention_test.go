package props

import (
	"context"
	"fmt"
	"testing"
	"time"

	"github.com/256dpi/lungo"
	"github.com/256dpi/lungo/bsonkit"
	"go.mongodb.org/mongo-driver/bson"
	"go.mongodb.org/mongo-driver/bson/primitive"
	"pgregory.net/rapid"
)

// C08 (retention clause): truncation removes exactly the prefix of events
// that is beyond the protections. Event ages are multiples of 10 s and the
// age limits end in 5 s, so the one-second granularity of the implementation
// cannot flip a decision while the check runs. The exception are events placed
// exactly minAge seconds back (the second of the cutoff, where an event may
// still be younger than the minimum age and must be kept): those cases are
// judged only when the wall clock stayed within one second while they ran.

func genC08Retention(t *rapid.T) bson.D {
	n := rapid.IntRange(0, 14).Draw(t, "n")
	ages := make([]int, n)
	for i := range ages {
		ages[i] = 10 * rapid.IntRange(0, 12).Draw(t, "age")
	}
	via := rapid.Bool().Draw(t, "viaEngine")
	minSize := rapid.IntRange(0, 8).Draw(t, "minSize")
	maxSize := rapid.IntRange(0, 12).Draw(t, "maxSize")
	minAge := rapid.SampledFrom([]int{0, 5, 15, 35, 65, 125}).Draw(t, "minAge")
	maxAge := rapid.SampledFrom([]int{5, 15, 45, 85, 115, 3605}).Draw(t, "maxAge")
	if via {
		// zero values mean "default" for engine options
		if minSize == 0 {
			minSize = 1
		}
		if maxSize == 0 {
			maxSize = 1
		}
		if minAge == 0 {
			minAge = 5
		}
	}
	// some events are exactly minAge seconds old: stamped in the second of the
	// cutoff, they may be younger than the minimum age and are protected
	if minAge != 0 && n > 0 {
		for j, k := 0, rapid.IntRange(0, 999).Draw(t, "borderline")%3; j < k; j++ {
			ages[rapid.IntRange(0, n-1).Draw(t, "borderlineAt")] = minAge
		}
	}
	// oldest first
	for i := 0; i < n; i++ {
		for j := i + 1; j < n; j++ {
			if ages[j] > ages[i] {
				ages[i], ages[j] = ages[j], ages[i]
			}
		}
	}
	aa := bson.A{}
	for _, a := range ages {
		aa = append(aa, int32(a))
	}
	return bson.D{{Key: "ages", Value: aa}, {Key: "minSize", Value: int32(minSize)}, {Key: "maxSize", Value: int32(maxSize)}, {Key: "minAge", Value: int32(minAge)}, {Key: "maxAge", Value: int32(maxAge)}, {Key: "viaEngine", Value: via}}
}

func agedEvent(i int, age int, now uint32) bson.D {
	ts := primitive.Timestamp{T: now - uint32(age), I: uint32(i + 1)}
	return bson.D{
		{Key: "_id", Value: bson.D{{Key: "ts", Value: ts}}},
		{Key: "clusterTime", Value: ts},
		{Key: "ns", Value: bson.D{{Key: "db", Value: "d1"}, {Key: "coll", Value: "c1"}}},
		{Key: "operationType", Value: "insert"},
		{Key: "documentKey", Value: bson.D{{Key: "_id", Value: int32(i)}}},
		{Key: "fullDocument", Value: bson.D{{Key: "_id", Value: int32(i)}}},
		{Key: "n", Value: int32(i)},
	}
}

func runC08Retention(c bson.D, x *Ctx) error {
	var ages []int
	for _, a := range asA(getD(c, "ages")) {
		ages = append(ages, asI(a))
	}
	minSize, maxSize := asI(getD(c, "minSize")), asI(getD(c, "maxSize"))
	minAge, maxAge := asI(getD(c, "minAge")), asI(getD(c, "maxAge"))
	via := asB(getD(c, "viaEngine"))
	now := bsonkit.Now().T
	cat := lungo.NewCatalog()
	for i, a := range ages {
		ev := agedEvent(i, a, now)
		if _, err := cat.Namespaces[lungo.Oplog].Insert(&ev); err != nil {
			return fmt.Errorf("harness: %v", err)
		}
	}
	var remaining []int // the "n" of the crafted events that are left
	if via {
		_, engine, err := lungo.Open(context.Background(), lungo.Options{Store: &sharedStore{cat: cat}, ExpireInterval: 24 * time.Hour,
			MinOplogSize: minSize, MaxOplogSize: maxSize, MinOplogAge: time.Duration(minAge) * time.Second, MaxOplogAge: time.Duration(maxAge) * time.Second})
		if err != nil {
			return fmt.Errorf("harness: %v", err)
		}
		defer engine.Close()
		client := lungo.NewClient(engine)
		if _, err := client.Database("d1").Collection("c1").InsertOne(context.Background(), bson.D{{Key: "_id", Value: "new"}}); err != nil {
			return fmt.Errorf("harness: insert failed: %v", err)
		}
		// the commit appended one fresh event (age 0) before truncating
		ages = append(ages, 0)
		list := engine.Catalog().Namespaces[lungo.Oplog].Documents.List
		for _, ev := range list {
			if v := getD(*ev, "n"); v != nil {
				remaining = append(remaining, asI(v))
			} else {
				remaining = append(remaining, len(ages)-1)
			}
		}
	} else {
		txn := lungo.NewTransaction(cat)
		txn.Clean(minSize, maxSize, time.Duration(minAge)*time.Second, time.Duration(maxAge)*time.Second)
		for _, ev := range txn.Catalog().Namespaces[lungo.Oplog].Documents.List {
			remaining = append(remaining, asI(getD(*ev, "n")))
		}
		if len(cat.Namespaces[lungo.Oplog].Documents.List) != len(asA(getD(c, "ages"))) {
			return fmt.Errorf("Clean modified the catalog it was started from")
		}
	}
	borderline := false
	for _, a := range ages {
		if minAge != 0 && a == minAge {
			borderline = true
		}
	}
	if borderline {
		if bsonkit.Now().T != now {
			// the wall clock moved to the next second while the case ran: the
			// crafted ages are one second off
			x.Class("second-rolled-over")
			return nil
		}
		x.Class("event-in-the-cutoff-second")
	}
	L := len(ages)
	// expected: the longest prefix of events that are outside both protections
	// and beyond at least one maximum
	drop := 0
	protSize, protAge := 0, 0
	for i := 0; i < L; i++ {
		bySize := i >= L-minSize
		byAge := minAge != 0 && ages[i] <= minAge
		forced := i < L-maxSize || ages[i] > maxAge
		if bySize {
			protSize++
		}
		if byAge {
			protAge++
		}
		if bySize || byAge || !forced {
			break
		}
		drop++
	}
	for i := drop; i < L; i++ {
		if i >= L-minSize {
			protSize++
		}
		if minAge != 0 && ages[i] <= minAge {
			protAge++
		}
	}
	var want []int
	for i := drop; i < L; i++ {
		want = append(want, i)
	}
	if fmt.Sprint(remaining) != fmt.Sprint(want) {
		return fmt.Errorf("retention (minSize=%d maxSize=%d minAge=%ds maxAge=%ds, event ages %v s, viaEngine=%v) kept events %v, the rule keeps %v", minSize, maxSize, minAge, maxAge, ages, via, remaining, want)
	}
	if drop > 0 {
		x.Class("events-removed")
		if protSize > 0 && protAge > 0 {
			x.NonTrivial()
		}
	} else if L > 0 {
		x.Class("nothing-removed")
	}
	if via {
		x.Class("via-engine-commit")
	} else {
		x.Class("via-Transaction.Clean")
	}
	return nil
}

var propC08Retention = Register(&Prop{ID: "C08", Sub: "retention", Gen: genC08Retention, Run: runC08Retention})

func TestProp_C08_retention(t *testing.T) { propC08Retention.Check(t) }
