package props

import (
	"context"
	"fmt"
	"runtime"
	"sync"
	"sync/atomic"
	"testing"
	"time"

	"github.com/256dpi/lungo"
	"go.mongodb.org/mongo-driver/bson"
	"pgregory.net/rapid"
)

// C09 (concurrent part): consumers blocked in Next are woken by every matching
// commit, by Close and by context cancellation; with writers running
// concurrently each consumer still receives exactly the events of its scope,
// once, in commit order. Liveness is bounded by tLive and decided by state: a
// consumer still inside Next while an undelivered event of its scope is in the
// change log is a lost wake-up.

const tLive = 10 * time.Second

func genC09Conc(t *rapid.T) bson.D {
	nss := []string{"d1.c1", "d1.c2", "d2.c1"}
	writers := bson.A{}
	for w, nw := 0, rapid.IntRange(1, 3).Draw(t, "writers"); w < nw; w++ {
		ops := bson.A{}
		for i, n := 0, rapid.IntRange(1, 8).Draw(t, "nops"); i < n; i++ {
			ops = append(ops, bson.D{{Key: "ns", Value: rapid.SampledFrom(nss).Draw(t, "ns")}, {Key: "many", Value: int32(rapid.SampledFrom([]int{1, 1, 1, 2, 3}).Draw(t, "many"))}})
		}
		writers = append(writers, ops)
	}
	consumers := bson.A{}
	for c, nc := 0, rapid.IntRange(1, 3).Draw(t, "consumers"); c < nc; c++ {
		consumers = append(consumers, bson.D{{Key: "scope", Value: rapid.SampledFrom([]string{"client", "db", "coll"}).Draw(t, "scope")}, {Key: "ns", Value: rapid.SampledFrom(nss).Draw(t, "cns")}, {Key: "end", Value: rapid.SampledFrom([]string{"close", "cancel", "closeEngine"}).Draw(t, "end")}})
	}
	tape := bson.A{}
	for i, m := 0, rapid.IntRange(0, 120).Draw(t, "tapelen"); i < m; i++ {
		tape = append(tape, int32(rapid.SampledFrom([]int{0, 0, 1, 2, 2, 3}).Draw(t, "tape")))
	}
	// some runs start on a change log that sits at its retention limit: every
	// commit then appends events and discards as many old ones
	aged := rapid.IntRange(0, 999).Draw(t, "aged")%5 == 2
	return bson.D{{Key: "writers", Value: writers}, {Key: "consumers", Value: consumers}, {Key: "tape", Value: tape}, {Key: "procs", Value: int32(rapid.SampledFrom([]int{2, 4, 16}).Draw(t, "procs"))}, {Key: "aged", Value: aged}}
}

func runC09ConcOnce(c bson.D, x *Ctx) error {
	old := runtime.GOMAXPROCS(asI(getD(c, "procs")))
	defer runtime.GOMAXPROCS(old)
	open := openMem
	if asB(getD(c, "aged")) {
		open = openFile
	}
	env, err := open()
	if err != nil {
		return fmt.Errorf("harness: %v", err)
	}
	if asB(getD(c, "aged")) {
		// 100 events two hours old, 80 of which are kept: the whole run (at
		// most 72 events) cannot push a stream's starting position out of
		// the log, but every commit discards as many old events as it appends
		var pre []interface{}
		for i := 0; i < 100; i++ {
			pre = append(pre, bson.D{{Key: "_id", Value: int32(i)}})
		}
		if _, err := env.coll("pre.p").InsertMany(context.Background(), pre); err != nil {
			return fmt.Errorf("harness: %v", err)
		}
		env.ageMinSize = 80
		if err := env.age(); err != nil {
			return fmt.Errorf("harness: ageing the change log failed: %v", err)
		}
		x.Class("change-log-at-retention-limit")
	}
	closed := false
	defer func() {
		if !closed {
			env.close()
		}
	}()
	var tape []int
	for _, v := range asA(getD(c, "tape")) {
		tape = append(tape, asI(v))
	}
	var tpos int64
	parkedAtWait := int64(0)
	hook := func(point string) {
		if point != "stream.beforeWait" && point != "commit.beforeBroadcast" && point != "commit.beforePublish" {
			return
		}
		if point == "stream.beforeWait" {
			atomic.AddInt64(&parkedAtWait, 1)
		}
		i := atomic.AddInt64(&tpos, 1) - 1
		if int(i) >= len(tape) {
			return
		}
		switch tape[i] {
		case 1:
			runtime.Gosched()
		case 2:
			time.Sleep(50 * time.Microsecond)
		case 3:
			time.Sleep(time.Millisecond)
		}
	}
	lungo.VerifHook.Store(&hook)
	defer lungo.VerifHook.Store(nil)

	type consumer struct {
		spec      bson.D
		st        *c09Stream
		ctx       context.Context
		cancel    context.CancelFunc
		got       []bson.D
		tokens    []bson.D
		drained   chan struct{}
		ended     chan struct{}
		want      int64
		decodeErr error
	}
	var cons []*consumer
	for _, cv := range asA(getD(c, "consumers")) {
		cd := asD(cv)
		db, coll := splitNS(asS(getD(cd, "ns")))
		var st lungo.IChangeStream
		var err error
		switch asS(getD(cd, "scope")) {
		case "client":
			db, coll = "", ""
			st, err = env.client.Watch(context.Background(), bson.A{})
		case "db":
			coll = ""
			st, err = env.client.Database(db).Watch(context.Background(), bson.A{})
		default:
			st, err = env.client.Database(db).Collection(coll).Watch(context.Background(), bson.A{})
		}
		if err != nil {
			return fmt.Errorf("Watch failed: %v", err)
		}
		ctx, cancel := context.WithCancel(context.Background())
		cons = append(cons, &consumer{spec: cd, st: &c09Stream{stream: st, db: db, coll: coll}, ctx: ctx, cancel: cancel, drained: make(chan struct{}), ended: make(chan struct{})})
	}
	// expected number of events per consumer (every insert is one event)
	for _, wv := range asA(getD(c, "writers")) {
		for _, ov := range asA(wv) {
			od := asD(ov)
			db, coll := splitNS(asS(getD(od, "ns")))
			for _, cn := range cons {
				if (cn.st.db == "" || cn.st.db == db) && (cn.st.coll == "" || cn.st.coll == coll) {
					cn.want += int64(asI(getD(od, "many")))
				}
			}
		}
	}
	for _, cn := range cons {
		go func(cn *consumer) {
			defer close(cn.ended)
			signalled := false
			if cn.want == 0 {
				close(cn.drained)
				signalled = true
			}
			for cn.st.stream.Next(cn.ctx) {
				var ev bson.D
				if err := cn.st.stream.Decode(&ev); err != nil {
					cn.decodeErr = err
					return
				}
				cn.got = append(cn.got, ev)
				var tok bson.D
				_ = bson.Unmarshal(cn.st.stream.ResumeToken(), &tok)
				cn.tokens = append(cn.tokens, tok)
				if int64(len(cn.got)) == cn.want && !signalled {
					close(cn.drained)
					signalled = true
				}
			}
		}(cn)
	}
	// writers
	var wg sync.WaitGroup
	var werr atomic.Value
	for w, wv := range asA(getD(c, "writers")) {
		wg.Add(1)
		go func(w int, ops bson.A) {
			defer wg.Done()
			for i, ov := range ops {
				od := asD(ov)
				var docs []interface{}
				for k := 0; k < asI(getD(od, "many")); k++ {
					docs = append(docs, bson.D{{Key: "_id", Value: fmt.Sprintf("w%d_%d_%d", w, i, k)}})
				}
				if _, err := env.coll(asS(getD(od, "ns"))).InsertMany(context.Background(), docs); err != nil {
					werr.Store(err)
					return
				}
			}
		}(w, asA(wv))
	}
	wdone := make(chan struct{})
	go func() { wg.Wait(); close(wdone) }()
	select {
	case <-wdone:
	case <-time.After(tLive):
		return fmt.Errorf("the writers did not finish within %v", tLive)
	}
	if e := werr.Load(); e != nil {
		return fmt.Errorf("harness: writer failed: %v", e)
	}
	// every consumer receives all events of its scope: a consumer that is
	// still blocked while undelivered events exist lost a wake-up
	for i, cn := range cons {
		select {
		case <-cn.drained:
		case <-cn.ended:
			if int64(len(cn.got)) < cn.want {
				return fmt.Errorf("consumer %d ended after %d of %d events (err=%v, decode=%v)", i, len(cn.got), cn.want, cn.st.stream.Err(), cn.decodeErr)
			}
		case <-time.After(tLive):
			return fmt.Errorf("lost wake-up: consumer %d (scope %q.%q) is still blocked in Next %v after all writers returned, having received %d of the %d committed events of its scope", i, cn.st.db, cn.st.coll, tLive, len(cn.got), cn.want)
		}
	}
	// delivered sequences = the change log filtered by scope, in order, once
	oplog := env.engine.Catalog().Namespaces[lungo.Oplog].Documents.List
	for i, cn := range cons {
		var want []bson.D
		for _, ev := range oplog {
			// events of the preparation phase precede every stream
			if asS(getPathD(*ev, "ns.db")) == "pre" {
				continue
			}
			if inScope(cn.st, *ev) {
				want = append(want, *ev)
			}
		}
		if len(want) != len(cn.got) {
			return fmt.Errorf("consumer %d received %d events, the change log has %d in its scope", i, len(cn.got), len(want))
		}
		for j := range want {
			if !bytesEq(want[j], cn.got[j]) {
				return fmt.Errorf("consumer %d received %s at position %d, the change log has %s there", i, show(getD(cn.got[j], "_id")), j, show(getD(want[j], "_id")))
			}
			if !sameValue(cn.tokens[j], getD(want[j], "_id")) {
				return fmt.Errorf("consumer %d: resume token after event %d is %s, want %s", i, j, show(cn.tokens[j]), show(getD(want[j], "_id")))
			}
		}
	}
	// now every consumer is blocked in Next with nothing to deliver: Close,
	// cancellation and engine shutdown must release it
	engineClosed := false
	for i, cn := range cons {
		switch asS(getD(cn.spec, "end")) {
		case "close":
			if err := cn.st.stream.Close(context.Background()); err != nil {
				return fmt.Errorf("Close failed: %v", err)
			}
		case "cancel":
			cn.cancel()
		default:
			if !engineClosed {
				engineClosed = true
				edone := make(chan struct{})
				go func() { env.engine.Close(); close(edone) }()
				select {
				case <-edone:
				case <-time.After(tLive):
					return fmt.Errorf("Engine.Close did not return within %v while consumers are blocked in Next", tLive)
				}
				closed = true
			}
		}
		select {
		case <-cn.ended:
		case <-time.After(tLive):
			if engineClosed && asS(getD(cn.spec, "end")) != "closeEngine" {
				continue
			}
			return fmt.Errorf("consumer %d blocked in Next was not released by %s within %v", i, asS(getD(cn.spec, "end")), tLive)
		}
	}
	if engineClosed {
		// the remaining consumers must have been released by the shutdown as well
		for i, cn := range cons {
			select {
			case <-cn.ended:
			case <-time.After(tLive):
				return fmt.Errorf("consumer %d was not released by Engine.Close within %v", i, tLive)
			}
		}
	}
	x.Rec.ClassN("events-delivered", func() int {
		n := 0
		for _, cn := range cons {
			n += len(cn.got)
		}
		return n
	}())
	if atomic.LoadInt64(&parkedAtWait) > 0 {
		x.Class("consumer-went-to-wait")
		x.NonTrivial()
	}
	return nil
}

var propC09Conc = Register(&Prop{ID: "C09", Sub: "concurrent", Gen: genC09Conc, Run: func(c bson.D, x *Ctx) error {
	n := 1
	if x.NoExclude {
		n = 10
	}
	for i := 0; i < n; i++ {
		if err := runC09ConcOnce(c, x); err != nil {
			return err
		}
	}
	return nil
}})

func TestProp_C09_concurrent(t *testing.T) { propC09Conc.Check(t) }
