package props

import (
	"context"
	"fmt"
	"testing"
	"time"

	"github.com/256dpi/lungo"
	"go.mongodb.org/mongo-driver/bson"
	"go.mongodb.org/mongo-driver/bson/primitive"
	"go.mongodb.org/mongo-driver/mongo/options"
	"pgregory.net/rapid"

	"verifharness/gen"
	"verifharness/ref"
)

// C09 (sequential part): change streams deliver exactly the change-log events
// of their scope after their start position, once, in order; drops invalidate;
// resume continues after the token; discarded undelivered events give an
// explicit lost-position error. The oracle is the change log itself, of which
// the harness keeps an untruncated copy.

type c09Stream struct {
	stream          lungo.IChangeStream
	db, coll        string
	pos             int  // index in the full log of the stream's position (-1: before everything)
	done            bool // invalidated, closed or failed
	invalid         bool // the next delivery must be the invalidate event
	delivered       int
	kinds           map[string]bool
	filteredBetween bool
	ignore          bool // excluded by a listed known finding: no further judgement
	// unpositioned: the stream was opened with its start position before the
	// first retained event and has not examined any event since (lungo keeps
	// no position marker then: Stream.last == nil)
	unpositioned bool
}

type c09Run struct {
	x        *Ctx
	env      *hEnv
	full     []bson.D // every event ever logged (copies), in order
	trimmed  int      // how many of them retention has discarded
	streams  []*c09Stream
	lostSeen int
}

func (r *c09Run) sync() error {
	oplog := r.env.engine.Catalog().Namespaces[lungo.Oplog].Documents.List
	// locate the first retained event in the full log
	if len(oplog) == 0 {
		r.trimmed = len(r.full)
		return nil
	}
	firstID := getD(*oplog[0], "_id")
	start := -1
	for i := range r.full {
		if ref.Cmp(getD(r.full[i], "_id"), firstID) == 0 {
			start = i
			break
		}
	}
	if start < 0 {
		// everything known was discarded; the retained events are all new
		start = len(r.full)
	}
	if start < r.trimmed {
		return fmt.Errorf("a discarded change-log event reappeared")
	}
	r.trimmed = start
	for i, ev := range oplog {
		j := start + i
		if j < len(r.full) {
			if ref.Cmp(getD(r.full[j], "_id"), getD(*ev, "_id")) != 0 {
				return fmt.Errorf("the change log is not a suffix-extension of its earlier contents at position %d", j)
			}
			continue
		}
		r.full = append(r.full, deepCopyBin(*ev).(bson.D))
	}
	return nil
}

func inScope(s *c09Stream, ev bson.D) bool {
	db := asS(getPathD(ev, "ns.db"))
	coll := asS(getPathD(ev, "ns.coll"))
	op := asS(getD(ev, "operationType"))
	if s.db != "" && s.db != db {
		return false
	}
	if s.coll != "" && s.coll != coll && op != "dropDatabase" {
		return false
	}
	return true
}

func invalidates(s *c09Stream, ev bson.D) bool {
	op := asS(getD(ev, "operationType"))
	if s.db != "" && s.coll != "" && op == "drop" {
		return true
	}
	if s.db != "" && op == "dropDatabase" {
		return true
	}
	return false
}

// tryNext performs one TryNext on stream i and checks it against the log.
func (r *c09Run) tryNext(i int) error {
	s := r.streams[i]
	if s.ignore {
		return nil
	}
	ok := s.stream.TryNext(context.Background())
	if s.done {
		if ok {
			return fmt.Errorf("stream %d delivered an event after it had ended", i)
		}
		return nil
	}
	if s.invalid {
		if !ok {
			return fmt.Errorf("stream %d: the drop was delivered but no invalidate event follows (err=%v)", i, s.stream.Err())
		}
		var ev bson.D
		if err := s.stream.Decode(&ev); err != nil {
			return fmt.Errorf("stream %d: Decode failed: %v", i, err)
		}
		if asS(getD(ev, "operationType")) != "invalidate" {
			return fmt.Errorf("stream %d: expected an invalidate event after the drop, got %s", i, show(ev))
		}
		s.done = true
		r.x.Class("invalidate-delivered")
		return nil
	}
	// expected next event in scope
	next := -1
	for j := s.pos + 1; j < len(r.full); j++ {
		if inScope(s, r.full[j]) {
			next = j
			break
		}
	}
	firstUnexamined := s.pos + 1
	mustLose := firstUnexamined < r.trimmed && firstUnexamined < len(r.full)
	mayLose := s.pos >= 0 && s.pos < r.trimmed
	if !ok {
		errc := make(chan error, 1)
		go func() { errc <- s.stream.Err() }()
		var err error
		select {
		case err = <-errc:
		case <-time.After(tLive):
			s.ignore, s.done = true, true
			return fmt.Errorf("stream %d: TryNext returned false and Err() has not returned within %v: the consumer stalls instead of learning what happened (position %d, %d events discarded)", i, tLive, s.pos, r.trimmed)
		}
		if err == lungo.ErrLostOplogPosition {
			if mustLose || mayLose {
				s.done = true
				r.lostSeen++
				r.x.Class("lost-position-reported")
				return nil
			}
			return fmt.Errorf("stream %d reports a lost position although no event at or after its position %d was discarded (%d discarded)", i, s.pos, r.trimmed)
		}
		if err != nil {
			return fmt.Errorf("stream %d failed: %v", i, err)
		}
		if mustLose {
			if s.unpositioned && r.x.Known("C09-unpositioned-stream-skips-discarded-events") {
				s.ignore, s.done = true, true
				return nil
			}
			return fmt.Errorf("stream %d: events after its position %d were discarded by retention (%d discarded) but TryNext reports neither an event nor a lost position", i, s.pos, r.trimmed)
		}
		if next >= 0 {
			return fmt.Errorf("stream %d (scope %q.%q, position %d) has an undelivered event at log position %d (%s) but TryNext returned false", i, s.db, s.coll, s.pos, next, show(r.full[next]))
		}
		// nothing to deliver: the position silently moves over out-of-scope events
		if len(r.full)-1 > s.pos {
			s.pos = len(r.full) - 1
			s.unpositioned = false
		}
		return nil
	}
	var ev bson.D
	if err := s.stream.Decode(&ev); err != nil {
		return fmt.Errorf("stream %d: Decode failed: %v", i, err)
	}
	if mustLose {
		if s.unpositioned && r.x.Known("C09-unpositioned-stream-skips-discarded-events") {
			s.ignore, s.done = true, true
			return nil
		}
		return fmt.Errorf("stream %d silently skipped discarded events: its position was %d, %d events were discarded by retention, and it delivered %s instead of failing with a lost-position error", i, s.pos, r.trimmed, show(getD(ev, "_id")))
	}
	if next < 0 {
		return fmt.Errorf("stream %d delivered %s but no undelivered event of its scope exists", i, show(ev))
	}
	if !bytesEq(ev, r.full[next]) {
		return fmt.Errorf("stream %d (scope %q.%q) delivered %s, the next change-log event of its scope is %s (log position %d)", i, s.db, s.coll, show(ev), show(r.full[next]), next)
	}
	// resume token = _id of the delivered event
	var tok bson.D
	if err := bson.Unmarshal(s.stream.ResumeToken(), &tok); err != nil || !sameValue(tok, getD(ev, "_id")) {
		return fmt.Errorf("stream %d: ResumeToken %s differs from the delivered event's _id %s", i, show(tok), show(getD(ev, "_id")))
	}
	if next > s.pos+1 {
		s.filteredBetween = true
	}
	s.pos = next
	s.unpositioned = false
	s.delivered++
	s.kinds[asS(getD(ev, "operationType"))] = true
	if invalidates(s, ev) {
		s.invalid = true
	}
	return nil
}

func (r *c09Run) do(step bson.D) error {
	switch asS(getD(step, "kind")) {
	case "macro":
		for _, sv := range asA(getD(step, "steps")) {
			if err := r.do(asD(sv)); err != nil {
				return fmt.Errorf("%s: %v", show(sv), err)
			}
		}
		return nil
	case "write":
		if _, err := r.env.execStep(asD(getD(step, "step"))); err != nil {
			return err
		}
		return r.sync()
	case "uncommitted":
		// an engine-level write transaction that is abandoned (or a
		// find-and-modify that is rejected after its write): the published
		// change log does not move and no stream sees anything of it
		before := len(r.env.engine.Catalog().Namespaces[lungo.Oplog].Documents.List)
		res, err := r.env.execStep(asD(getD(step, "step")))
		if err != nil {
			return err
		}
		_ = res // rejected, aborted, or nothing matched: in no case a commit
		if after := len(r.env.engine.Catalog().Namespaces[lungo.Oplog].Documents.List); after != before {
			return fmt.Errorf("a write that never committed (%s) added %d event(s) to the published change log", show(getD(step, "step")), after-before)
		}
		return r.sync()
	case "sleep":
		time.Sleep(1050 * time.Millisecond)
		return nil
	case "watch":
		scope := asS(getD(step, "scope"))
		db, coll := splitNS(asS(getD(step, "ns")))
		co := options.ChangeStream()
		pos := len(r.full) - 1
		start := asS(getD(step, "start"))
		refIdx := asI(getD(step, "ref"))
		expectErr := false
		if start != "now" {
			if len(r.full) == 0 {
				start = "now"
			} else {
				refIdx = refIdx % len(r.full)
			}
		}
		switch start {
		case "resumeAfter", "startAfter":
			tok := getD(r.full[refIdx], "_id")
			if start == "resumeAfter" {
				co.SetResumeAfter(tok)
			} else {
				co.SetStartAfter(tok)
			}
			pos = refIdx
			if refIdx < r.trimmed {
				expectErr = true // the token's event was discarded
			}
		case "startAt":
			ts := getD(r.full[refIdx], "clusterTime").(primitive.Timestamp)
			if asS(getD(step, "variant")) == "older" {
				ts = primitive.Timestamp{T: 1, I: 1}
				refIdx = 0
			}
			co.SetStartAtOperationTime(&ts)
			pos = refIdx - 1
			if refIdx < r.trimmed {
				// events at or after the requested time were discarded
				pos = r.trimmed - 1
				if pos >= 0 {
					return nil // not generated against a truncated log: semantics of a start time older than the log are not claimed
				}
			}
		}
		var st lungo.IChangeStream
		var err error
		switch scope {
		case "client":
			st, err = r.env.client.Watch(context.Background(), bson.A{}, co)
			db, coll = "", ""
		case "db":
			st, err = r.env.client.Database(db).Watch(context.Background(), bson.A{}, co)
			coll = ""
		default:
			st, err = r.env.client.Database(db).Collection(coll).Watch(context.Background(), bson.A{}, co)
		}
		if expectErr {
			if err == nil {
				return fmt.Errorf("resuming from the token of a discarded event succeeded (%d events discarded, token of event %d)", r.trimmed, refIdx)
			}
			r.x.Class("resume-from-discarded-token-rejected")
			return nil
		}
		if err != nil {
			return fmt.Errorf("Watch (%s, start %s) failed: %v", scope, start, err)
		}
		r.streams = append(r.streams, &c09Stream{stream: st, db: db, coll: coll, pos: pos, kinds: map[string]bool{}, unpositioned: pos < r.trimmed})
		r.x.Class("watch:" + scope + ":" + start)
		return nil
	case "next":
		if len(r.streams) == 0 {
			return nil
		}
		i := asI(getD(step, "s")) % len(r.streams)
		for k := 0; k < asI(getD(step, "n")); k++ {
			if err := r.tryNext(i); err != nil {
				return err
			}
		}
		return nil
	case "close":
		if len(r.streams) == 0 {
			return nil
		}
		i := asI(getD(step, "s")) % len(r.streams)
		if err := r.streams[i].stream.Close(context.Background()); err != nil {
			return fmt.Errorf("Close failed: %v", err)
		}
		r.streams[i].done = true
		return nil
	}
	return fmt.Errorf("harness: unknown step")
}

// drain delivers everything that is left on every stream.
func (r *c09Run) drain() error {
	for i, s := range r.streams {
		for k := 0; k < len(r.full)+3 && !s.done; k++ {
			before := s.delivered
			if err := r.tryNext(i); err != nil {
				return err
			}
			if s.delivered == before && !s.invalid && !s.done {
				break
			}
		}
		if !s.done {
			for j := s.pos + 1; j < len(r.full); j++ {
				if inScope(s, r.full[j]) {
					return fmt.Errorf("after draining, stream %d still misses the event at log position %d", i, j)
				}
			}
		}
	}
	return nil
}

var profStream = &hProfile{name: "stream", cfg: gen.Core, weights: map[string]int{
	"insertOne": 12, "insertMany": 4, "updateOne": 5, "updateMany": 6, "replaceOne": 3, "deleteOne": 4, "deleteMany": 2, "bulkWrite": 3,
	"findOneAndUpdate": 2, "dropColl": 4, "dropDB": 3, "createColl": 1, "createIndex": 1,
}, nss: []string{"d1.c1", "d1.c1", "d1.c2", "d2.c1"}, docGen: defaultDocGen, idPool: simpleIDs, tinyVals: collideVals}

func genC09Step(t *rapid.T, r *c09Run, lost bool) bson.D {
	k := rapid.IntRange(0, 99).Draw(t, "kind")
	switch {
	case k < 4:
		ns := rapid.SampledFrom(profStream.nss).Draw(t, "uns")
		if rapid.Bool().Draw(t, "ukind") {
			return bson.D{{Key: "kind", Value: "uncommitted"}, {Key: "step", Value: bson.D{{Key: "op", Value: "txnAborted"}, {Key: "ns", Value: ns}, {Key: "what", Value: rapid.SampledFrom([]string{"deleteAll", "deleteAll", "dropColl", "dropDB", "create"}).Draw(t, "uwhat")}}}}
		}
		return bson.D{{Key: "kind", Value: "uncommitted"}, {Key: "step", Value: bson.D{{Key: "op", Value: "findOneAndDelete"}, {Key: "ns", Value: ns}, {Key: "filter", Value: bson.D{}}, {Key: "proj", Value: bson.D{{Key: "a", Value: int32(1)}, {Key: "b", Value: int32(0)}}}}}}
	case k < 45:
		view := (&hRun{env: r.env}).view()
		return bson.D{{Key: "kind", Value: "write"}, {Key: "step", Value: profStream.genStep(t, view)}}
	case k < 60:
		start := rapid.SampledFrom([]string{"now", "now", "resumeAfter", "startAfter", "startAt"}).Draw(t, "start")
		return bson.D{{Key: "kind", Value: "watch"}, {Key: "scope", Value: rapid.SampledFrom([]string{"client", "db", "coll", "coll"}).Draw(t, "scope")}, {Key: "ns", Value: rapid.SampledFrom(profStream.nss).Draw(t, "wns")},
			{Key: "start", Value: start}, {Key: "ref", Value: int32(rapid.SampledFrom([]int{0, 0, 1, 1, 2, 3, 5, 8, 13, 21, 34, 55}).Draw(t, "ref"))}, {Key: "variant", Value: rapid.SampledFrom([]string{"at", "at", "older"}).Draw(t, "variant")}}
	case k < 93:
		return bson.D{{Key: "kind", Value: "next"}, {Key: "s", Value: int32(rapid.IntRange(0, 7).Draw(t, "s"))}, {Key: "n", Value: int32(rapid.IntRange(1, 4).Draw(t, "n"))}}
	case k < 96 || !lost:
		return bson.D{{Key: "kind", Value: "close"}, {Key: "s", Value: int32(rapid.IntRange(0, 7).Draw(t, "s"))}}
	case k < 98:
		// a stream consumes the drop of its own collection / database; the
		// drop event then ages out of the log while other namespaces are
		// written; the stream still ends with its invalidate event
		ns := rapid.SampledFrom([]string{"d1.c1", "d1.c2", "d2.c1"}).Draw(t, "mns")
		other := "d1.c2"
		if ns == "d1.c2" {
			other = "d2.c1"
		}
		scope := rapid.SampledFrom([]string{"coll", "db"}).Draw(t, "mscope")
		if scope == "db" {
			other = map[string]string{"d1": "d2.c1", "d2": "d1.c1"}[ns[:2]]
		}
		dropOp := bson.D{{Key: "op", Value: "dropColl"}, {Key: "ns", Value: ns}}
		if scope == "db" {
			dropOp = bson.D{{Key: "op", Value: "dropDB"}, {Key: "ns", Value: ns}, {Key: "db", Value: ns[:2]}}
		}
		idx := int32(len(r.streams))
		ins := func(n string, id string) bson.D {
			return bson.D{{Key: "kind", Value: "write"}, {Key: "step", Value: bson.D{{Key: "op", Value: "insertOne"}, {Key: "ns", Value: n}, {Key: "doc", Value: bson.D{{Key: "_id", Value: id}}}}}}
		}
		tag := fmt.Sprintf("m%d-", len(r.streams))
		return bson.D{{Key: "kind", Value: "macro"}, {Key: "steps", Value: bson.A{
			bson.D{{Key: "kind", Value: "watch"}, {Key: "scope", Value: scope}, {Key: "ns", Value: ns}, {Key: "start", Value: "now"}, {Key: "ref", Value: int32(0)}, {Key: "variant", Value: "at"}},
			ins(ns, tag+"a"),
			bson.D{{Key: "kind", Value: "write"}, {Key: "step", Value: dropOp}},
			bson.D{{Key: "kind", Value: "next"}, {Key: "s", Value: idx}, {Key: "n", Value: int32(2)}},
			bson.D{{Key: "kind", Value: "sleep"}},
			ins(other, tag+"b"),
			ins(other, tag+"c"),
			ins(other, tag+"d"),
			bson.D{{Key: "kind", Value: "next"}, {Key: "s", Value: idx}, {Key: "n", Value: int32(2)}},
		}}}
	default:
		return bson.D{{Key: "kind", Value: "sleep"}}
	}
}

func newC09Run(x *Ctx, lost bool) (*c09Run, error) {
	opts := lungo.Options{Store: lungo.NewMemoryStore(), ExpireInterval: 24 * time.Hour}
	if lost {
		opts.MinOplogSize, opts.MaxOplogSize = 1, 2
		opts.MinOplogAge, opts.MaxOplogAge = time.Nanosecond, time.Second
	}
	client, engine, err := lungo.Open(context.Background(), opts)
	if err != nil {
		return nil, err
	}
	return &c09Run{x: x, env: &hEnv{client: client, engine: engine}}, nil
}

func c09Prop(sub string, lost bool, minSteps, maxSteps int) *Prop {
	finish := func(r *c09Run, x *Ctx) error {
		if err := r.drain(); err != nil {
			return err
		}
		for _, s := range r.streams {
			if s.delivered >= 3 && len(s.kinds) >= 2 && s.filteredBetween {
				x.NonTrivial()
			}
		}
		if lost && r.lostSeen > 0 {
			x.NonTrivial()
		}
		return nil
	}
	return Register(&Prop{ID: "C09", Sub: sub,
		Live: func(t *rapid.T, x *Ctx) (bson.D, error) {
			r, err := newC09Run(x, lost)
			if err != nil {
				return nil, fmt.Errorf("harness: %v", err)
			}
			defer r.env.close()
			steps := bson.A{}
			mk := func() bson.D { return bson.D{{Key: "lost", Value: lost}, {Key: "steps", Value: steps}} }
			n := rapid.IntRange(minSteps, maxSteps).Draw(t, "nsteps")
			for i := 0; i < n; i++ {
				st := genC09Step(t, r, lost)
				steps = append(steps, st)
				if err := r.do(st); err != nil {
					return mk(), fmt.Errorf("step %d %s: %v", i+1, show(st), err)
				}
			}
			return mk(), finish(r, x)
		},
		Run: func(c bson.D, x *Ctx) error {
			r, err := newC09Run(x, asB(getD(c, "lost")))
			if err != nil {
				return fmt.Errorf("harness: %v", err)
			}
			defer r.env.close()
			for i, s := range asA(getD(c, "steps")) {
				if err := r.do(asD(s)); err != nil {
					return fmt.Errorf("step %d %s: %v", i+1, show(s), err)
				}
			}
			return finish(r, x)
		},
	})
}

var propC09Seq = c09Prop("sequential", false, 10, 50)
var propC09Lost = c09Prop("retention", true, 10, 40)

func TestProp_C09_sequential(t *testing.T) { propC09Seq.Check(t) }
func TestProp_C09_retention(t *testing.T)  { propC09Lost.Check(t) }
