package props

import (
	"fmt"
	"math"
	"strings"
	"testing"

	"github.com/256dpi/lungo/mongokit"
	"go.mongodb.org/mongo-driver/bson"
	"go.mongodb.org/mongo-driver/bson/primitive"
	"pgregory.net/rapid"

	"verifharness/gen"
	"verifharness/ref"
)

// lmatch calls mongokit.Match on private copies and converts panics to errors
// that are distinguishable from ordinary rejections.
type matchRes struct {
	ok    bool
	err   error
	panic bool
}

func lmatch(doc, filter bson.D) matchRes {
	d := copyD(doc)
	f := copyD(filter)
	var r matchRes
	func() {
		defer func() {
			if p := recover(); p != nil {
				r.panic = true
				r.err = fmt.Errorf("mongokit.Match panicked: %v", p)
			}
		}()
		r.ok, r.err = mongokit.Match(&d, &f)
	}()
	return r
}

// ---------------------------------------------------------------- agreement

// genC10FanSize: an array of sub-documents whose field b is a scalar, null,
// missing or an array of 0-3 elements, queried with $size on the fanned-out
// path (each sub-document's value counts on its own).
func genC10FanSize(t *rapid.T) bson.D {
	elems := bson.A{}
	for i, n := 0, rapid.IntRange(1, 4).Draw(t, "fsElems"); i < n; i++ {
		switch rapid.IntRange(0, 999).Draw(t, "fsKind") % 6 {
		case 0:
			elems = append(elems, bson.D{{Key: "b", Value: int32(7)}})
		case 1:
			elems = append(elems, bson.D{{Key: "c", Value: int32(1)}})
		case 2:
			elems = append(elems, bson.D{{Key: "b", Value: nil}})
		case 3:
			elems = append(elems, int32(5))
		default:
			arr := bson.A{}
			for j, m := 0, rapid.IntRange(0, 999).Draw(t, "fsLen")%4; j < m; j++ {
				arr = append(arr, int32(j+1))
			}
			elems = append(elems, bson.D{{Key: "b", Value: arr}})
		}
	}
	cond := bson.D{{Key: "$size", Value: int32(rapid.IntRange(0, 999).Draw(t, "fsN") % 4)}}
	if rapid.IntRange(0, 999).Draw(t, "fsNot")%3 == 1 {
		cond = bson.D{{Key: "$not", Value: cond}}
	}
	return bson.D{{Key: "doc", Value: bson.D{{Key: "_id", Value: int32(1)}, {Key: "a", Value: elems}}}, {Key: "filter", Value: bson.D{{Key: "a.b", Value: cond}}}}
}

// genC10AllRepeat: an array that repeats values (also as equal numbers of
// different types) against $all lists of 1-3 items from the same small pool:
// $all is the conjunction of the equalities, however often an item occurs.
func genC10AllRepeat(t *rapid.T) bson.D {
	pool := []interface{}{int32(1), float64(1), int64(2), "x", nil, int32(3)}
	pick := func(label string) interface{} {
		return pool[rapid.IntRange(0, 999).Draw(t, label)%len(pool)]
	}
	arr := bson.A{}
	for i, n := 0, 1+rapid.IntRange(0, 999).Draw(t, "arLen")%4; i < n; i++ {
		arr = append(arr, pick("arV"))
	}
	list := bson.A{}
	for i, n := 0, 1+rapid.IntRange(0, 999).Draw(t, "arItems")%3; i < n; i++ {
		list = append(list, pick("arI"))
	}
	cond := bson.D{{Key: "$all", Value: list}}
	if rapid.IntRange(0, 999).Draw(t, "arNot")%4 == 1 {
		cond = bson.D{{Key: "$not", Value: cond}}
	}
	return bson.D{{Key: "doc", Value: bson.D{{Key: "_id", Value: int32(1)}, {Key: "a", Value: arr}}}, {Key: "filter", Value: bson.D{{Key: "a", Value: cond}}}}
}

func genC10Agree(t *rapid.T) bson.D {
	switch rapid.IntRange(0, 999).Draw(t, "shape") % 16 {
	case 7:
		return genC10FanSize(t)
	case 9:
		return genC10AllRepeat(t)
	}
	cfg := gen.Core
	doc := cfg.Doc(2, 3).Draw(t, "doc")
	var flt bson.D
	gen.WithHint(gen.HintOf(doc), func() { flt = cfg.Filter(2).Draw(t, "filter") })
	return bson.D{{Key: "doc", Value: doc}, {Key: "filter", Value: flt}}
}

func opsIn(v interface{}, out map[string]int) {
	switch x := v.(type) {
	case bson.D:
		for _, e := range x {
			if strings.HasPrefix(e.Key, "$") {
				out[e.Key]++
			}
			opsIn(e.Value, out)
		}
	case bson.A:
		for _, e := range x {
			opsIn(e, out)
		}
	}
}

func hasNaN(v interface{}) bool {
	return hasKind(v, func(x interface{}) bool {
		switch n := x.(type) {
		case float64:
			return math.IsNaN(n)
		case primitive.Decimal128:
			return n.IsNaN()
		}
		return false
	})
}

// filterPaths collects the field paths of a filter (top level and inside
// logical operators).
func filterPaths(f bson.D, out *[]string) {
	for _, e := range f {
		if strings.HasPrefix(e.Key, "$") {
			if a, ok := e.Value.(bson.A); ok {
				for _, it := range a {
					if d, ok := it.(bson.D); ok {
						filterPaths(d, out)
					}
				}
			}
			continue
		}
		*out = append(*out, e.Key)
	}
}

func hasObjectElemMatch(v interface{}) bool {
	switch x := v.(type) {
	case bson.D:
		for _, e := range x {
			if e.Key == "$elemMatch" {
				if q, ok := e.Value.(bson.D); ok && len(q) > 0 && !strings.HasPrefix(q[0].Key, "$") {
					return true
				}
			}
			if hasObjectElemMatch(e.Value) {
				return true
			}
		}
	case bson.A:
		for _, e := range x {
			if hasObjectElemMatch(e) {
				return true
			}
		}
	}
	return false
}

func hasTypeNull(v interface{}) bool {
	switch x := v.(type) {
	case bson.D:
		for _, e := range x {
			if e.Key == "$type" {
				specs, ok := e.Value.(bson.A)
				if !ok {
					specs = bson.A{e.Value}
				}
				for _, s := range specs {
					switch n := s.(type) {
					case string:
						if n == "null" {
							return true
						}
					case int32:
						if n == 10 {
							return true
						}
					case int64:
						if n == 10 {
							return true
						}
					case float64:
						if n == 10 {
							return true
						}
					}
				}
			}
			if hasTypeNull(e.Value) {
				return true
			}
		}
	case bson.A:
		for _, e := range x {
			if hasTypeNull(e) {
				return true
			}
		}
	}
	return false
}

func runC10Agree(c bson.D, x *Ctx) error {
	doc := asD(getD(c, "doc"))
	flt := asD(getD(c, "filter"))
	want, werr := ref.Match(doc, flt)
	got := lmatch(doc, flt)
	if got.panic {
		return got.err
	}
	switch werr {
	case ref.ErrOutside:
		x.Class("outside-core-domain")
		return nil
	case ref.ErrInvalid:
		// malformed operator arguments are outside the property's quantifier
		// ("well-formed filters"); lungo validates lazily, so only no-panic is
		// required here (C20 covers it)
		x.Class("malformed-filter")
		return nil
	}
	// classification / non-trivial rule
	ops := map[string]int{}
	opsIn(flt, ops)
	nops := 0
	for _, n := range ops {
		nops += n
	}
	var paths []string
	filterPaths(flt, &paths)
	resolved, fanOrArray := false, false
	for _, p := range paths {
		for _, b := range ref.Walk(doc, strings.Split(p, "."), false) {
			if b.V != ref.Missing {
				resolved = true
			}
			if _, isArr := b.V.(bson.A); isArr || b.FanOut {
				fanOrArray = true
			}
		}
	}
	if resolved && (nops >= 2 || fanOrArray) {
		x.NonTrivial()
		if want {
			x.Class("nontrivial-true")
		} else {
			x.Class("nontrivial-false")
		}
	}
	if want {
		x.Class("ref-true")
	} else {
		x.Class("ref-false")
	}
	if got.err != nil {
		return fmt.Errorf("well-formed filter rejected: %v (reference says %v)", got.err, want)
	}
	if got.ok != want {
		if (hasNaN(doc) || hasNaN(flt)) && x.Known("C10-nan-ordering") {
			return nil
		}
		if hasTypeNull(flt) && x.Known("C10-type-null-missing") {
			return nil
		}
		if hasObjectElemMatch(flt) && x.Known("C10-elemmatch-object-on-scalar") {
			return nil
		}
		return fmt.Errorf("mongokit.Match = %v, reference semantics say %v", got.ok, want)
	}
	return nil
}

var propC10Agree = Register(&Prop{ID: "C10", Sub: "agree", Gen: genC10Agree, Run: runC10Agree})

func TestProp_C10_agree(t *testing.T) { propC10Agree.Check(t) }

// ---------------------------------------------------------------- laws

func genC10Laws(t *rapid.T) bson.D {
	cfg := gen.Wide
	doc := cfg.Doc(3, 3).Draw(t, "doc")
	var p string
	var v, w interface{}
	var f, g bson.D
	var e bson.E
	gen.WithHint(gen.HintOf(doc), func() {
		p = cfg.PathFrom(t, gen.Paths)
		v = cfg.Operand().Draw(t, "v")
		w = cfg.Operand().Draw(t, "w")
		f = cfg.Filter(1).Draw(t, "f")
		g = cfg.Filter(1).Draw(t, "g")
		e = cfg.OpExpr(1).Draw(t, "e")
	})
	return bson.D{{Key: "doc", Value: doc}, {Key: "p", Value: p}, {Key: "v", Value: v}, {Key: "w", Value: w}, {Key: "f", Value: f}, {Key: "g", Value: g}, {Key: "e", Value: bson.D{e}}}
}

// looksLikeOperatorDoc: a document operand whose first key starts with '$'
// would be parsed as an operator expression when used as a literal.
func looksLikeOperatorDoc(v interface{}) bool {
	d, ok := v.(bson.D)
	return ok && len(d) > 0 && strings.HasPrefix(d[0].Key, "$")
}

func runC10Laws(c bson.D, x *Ctx) error {
	doc := asD(getD(c, "doc"))
	p := asS(getD(c, "p"))
	v, w := getD(c, "v"), getD(c, "w")
	f, g := asD(getD(c, "f")), asD(getD(c, "g"))
	e := asD(getD(c, "e"))
	if looksLikeOperatorDoc(v) || looksLikeOperatorDoc(w) {
		x.Class("skipped-operator-like-operand")
		return nil
	}
	type ev struct {
		ok  bool
		err bool
	}
	eval := func(flt bson.D) (ev, error) {
		r := lmatch(doc, flt)
		if r.panic {
			return ev{}, r.err
		}
		return ev{ok: r.ok, err: r.err != nil}, nil
	}
	nontrivial := false
	// law(name, lhs filter, rhs as boolean function of sub-results)
	check := func(name string, lhs bson.D, subs []bson.D, combine func(r []bool) bool) error {
		l, err := eval(lhs)
		if err != nil {
			return fmt.Errorf("%s: %v", name, err)
		}
		var rs []bool
		anyErr := l.err
		for _, s := range subs {
			r, err := eval(s)
			if err != nil {
				return fmt.Errorf("%s: %v", name, err)
			}
			anyErr = anyErr || r.err
			rs = append(rs, r.ok)
		}
		if anyErr {
			// lungo evaluates lazily: a malformed part may or may not be
			// reached on either side; laws are stated for well-formed filters
			x.Class("law-skipped-error:" + name)
			return nil
		}
		x.Class("law:" + name)
		want := combine(rs)
		if want {
			x.Class("law-true")
		} else {
			x.Class("law-false")
		}
		if l.ok != want {
			return fmt.Errorf("law %s broken: lhs %s = %v, rhs from %v gives %v", name, show(lhs), l.ok, rs, want)
		}
		nontrivial = true
		return nil
	}
	not := func(r []bool) bool { return !r[0] }
	fd := func(k string, val interface{}) bson.D { return bson.D{{Key: k, Value: val}} }
	op := func(o string, val interface{}) bson.D { return bson.D{{Key: o, Value: val}} }
	laws := []func() error{
		func() error {
			return check("nor=not-or", fd("$nor", bson.A{f, g}), []bson.D{fd("$or", bson.A{f, g})}, not)
		},
		func() error { return check("ne=not-eq", fd(p, op("$ne", v)), []bson.D{fd(p, op("$eq", v))}, not) },
		func() error { return check("ne=not-literal", fd(p, op("$ne", v)), []bson.D{fd(p, v)}, not) },
		func() error {
			return check("nin=not-in", fd(p, op("$nin", bson.A{v, w})), []bson.D{fd(p, op("$in", bson.A{v, w}))}, not)
		},
		func() error { return check("not=negation", fd(p, op("$not", e)), []bson.D{fd(p, e)}, not) },
		func() error {
			return check("not-not=identity", fd(p, op("$not", op("$not", e))), []bson.D{fd(p, e)}, func(r []bool) bool { return r[0] })
		},
		func() error {
			return check("and=conjunction", fd("$and", bson.A{f, g}), []bson.D{f, g}, func(r []bool) bool { return r[0] && r[1] })
		},
		func() error {
			return check("implicit-and=conjunction", append(append(bson.D{}, f...), g...), []bson.D{f, g}, func(r []bool) bool { return r[0] && r[1] })
		},
		func() error {
			return check("or=disjunction", fd("$or", bson.A{f, g}), []bson.D{f, g}, func(r []bool) bool { return r[0] || r[1] })
		},
		func() error {
			return check("in=disjunction-of-eq", fd(p, op("$in", bson.A{v, w})), []bson.D{fd(p, op("$eq", v)), fd(p, op("$eq", w))}, func(r []bool) bool { return r[0] || r[1] })
		},
		func() error {
			return check("gte=gt-or-eq", fd(p, op("$gte", v)), []bson.D{fd(p, op("$gt", v)), fd(p, op("$eq", v))}, func(r []bool) bool { return r[0] || r[1] })
		},
		func() error {
			return check("lte=lt-or-eq", fd(p, op("$lte", v)), []bson.D{fd(p, op("$lt", v)), fd(p, op("$eq", v))}, func(r []bool) bool { return r[0] || r[1] })
		},
		func() error {
			return check("exists-false=not-exists-true", fd(p, op("$exists", false)), []bson.D{fd(p, op("$exists", true))}, not)
		},
		func() error {
			return check("and-commutes", fd("$and", bson.A{f, g}), []bson.D{fd("$and", bson.A{g, f})}, func(r []bool) bool { return r[0] })
		},
		func() error {
			return check("and-idempotent", fd("$and", bson.A{f, g, f}), []bson.D{fd("$and", bson.A{f, g})}, func(r []bool) bool { return r[0] })
		},
		func() error {
			return check("or-commutes", fd("$or", bson.A{f, g}), []bson.D{fd("$or", bson.A{g, f})}, func(r []bool) bool { return r[0] })
		},
		func() error {
			return check("eq=literal", fd(p, op("$eq", v)), []bson.D{fd(p, v)}, func(r []bool) bool { return r[0] })
		},
	}
	for _, l := range laws {
		if err := l(); err != nil {
			return err
		}
	}
	if nontrivial {
		// non-trivial: the path resolves to something in the document
		for _, b := range ref.Walk(doc, strings.Split(p, "."), false) {
			if b.V != ref.Missing {
				x.NonTrivial()
				break
			}
		}
	}
	return nil
}

var propC10Laws = Register(&Prop{ID: "C10", Sub: "laws", Gen: genC10Laws, Run: runC10Laws})

func TestProp_C10_laws(t *testing.T) { propC10Laws.Check(t) }

// ---------------------------------------------------------------- metamorphic

func genC10Meta(t *rapid.T) bson.D {
	cfg := gen.Wide
	doc := cfg.Doc(3, 3).Draw(t, "doc")
	var flt bson.D
	gen.WithHint(gen.HintOf(doc), func() { flt = cfg.Filter(2).Draw(t, "filter") })
	return bson.D{{Key: "doc", Value: doc}, {Key: "filter", Value: flt}}
}

var renameMap = map[string]string{"a": "a1", "b": "b1", "c": "c1"}

func renamePath(p string) string {
	comps := strings.Split(p, ".")
	for i, c := range comps {
		if n, ok := renameMap[c]; ok {
			comps[i] = n
		}
	}
	return strings.Join(comps, ".")
}

// renameValue renames keys of documents that are *data* (documents and literal
// operands).
func renameValue(v interface{}) interface{} {
	switch x := v.(type) {
	case bson.D:
		out := make(bson.D, len(x))
		for i, e := range x {
			k := e.Key
			if n, ok := renameMap[k]; ok {
				k = n
			}
			out[i] = bson.E{Key: k, Value: renameValue(e.Value)}
		}
		return out
	case bson.A:
		out := make(bson.A, len(x))
		for i, e := range x {
			out[i] = renameValue(e)
		}
		return out
	}
	return v
}

// mapFilter rewrites a filter: field paths through pf, literal operands
// through pv. Expressions keep their structure.
func mapFilter(f bson.D, pf func(string) string, pv func(interface{}) interface{}, top bool) bson.D {
	out := make(bson.D, 0, len(f))
	for _, e := range f {
		if strings.HasPrefix(e.Key, "$") {
			switch e.Key {
			case "$and", "$or", "$nor":
				if a, ok := e.Value.(bson.A); ok {
					na := make(bson.A, len(a))
					for i, it := range a {
						if d, ok := it.(bson.D); ok {
							na[i] = mapFilter(d, pf, pv, top)
						} else {
							na[i] = it
						}
					}
					out = append(out, bson.E{Key: e.Key, Value: na})
					continue
				}
			}
			out = append(out, e)
			continue
		}
		out = append(out, bson.E{Key: pf(e.Key), Value: mapCond(e.Value, pv)})
	}
	return out
}

func mapCond(cond interface{}, pv func(interface{}) interface{}) interface{} {
	d, ok := cond.(bson.D)
	if !ok || len(d) == 0 || !strings.HasPrefix(d[0].Key, "$") {
		return pv(cond)
	}
	out := make(bson.D, len(d))
	for i, o := range d {
		out[i] = bson.E{Key: o.Key, Value: mapOperand(o.Key, o.Value, pv)}
	}
	return out
}

func mapOperand(op string, v interface{}, pv func(interface{}) interface{}) interface{} {
	switch op {
	case "$eq", "$ne", "$gt", "$gte", "$lt", "$lte":
		return pv(v)
	case "$in", "$nin", "$all":
		if a, ok := v.(bson.A); ok {
			na := make(bson.A, len(a))
			for i, it := range a {
				na[i] = pv(it)
			}
			return na
		}
		return v
	case "$not":
		return mapCond(v, pv)
	case "$elemMatch":
		q, ok := v.(bson.D)
		if !ok || len(q) == 0 {
			return v
		}
		if strings.HasPrefix(q[0].Key, "$") {
			return mapCond(q, pv)
		}
		// object form: relative field paths inside the element
		out := make(bson.D, len(q))
		for i, e := range q {
			if strings.HasPrefix(e.Key, "$") {
				out[i] = e
				continue
			}
			k := e.Key
			if pvIsRename(pv) {
				k = renamePath(k)
			}
			out[i] = bson.E{Key: k, Value: mapCond(e.Value, pv)}
		}
		return out
	}
	return v
}

var renameMarker = struct{}{}

func pvIsRename(pv func(interface{}) interface{}) bool {
	// the rename mapping is recognised by its effect on a probe
	d, ok := pv(bson.D{{Key: "a", Value: renameMarker}}).(bson.D)
	return ok && len(d) == 1 && d[0].Key == "a1"
}

func hasDollarTop(f bson.D, names ...string) bool {
	found := false
	var walk func(v interface{})
	walk = func(v interface{}) {
		switch x := v.(type) {
		case bson.D:
			for _, e := range x {
				for _, n := range names {
					if e.Key == n {
						found = true
					}
				}
				walk(e.Value)
			}
		case bson.A:
			for _, e := range x {
				walk(e)
			}
		}
	}
	walk(f)
	return found
}

func runC10Meta(c bson.D, x *Ctx) error {
	doc := asD(getD(c, "doc"))
	flt := asD(getD(c, "filter"))
	base := lmatch(doc, flt)
	if base.panic {
		return base.err
	}
	if base.err != nil {
		x.Class("base-error")
		return nil
	}
	id := func(v interface{}) interface{} { return v }
	// 1. unrelated field appended
	d1 := append(copyD(doc), bson.E{Key: "zz", Value: bson.A{int32(1), bson.D{{Key: "a", Value: "q"}}}})
	r1 := lmatch(d1, flt)
	if r1.panic {
		return r1.err
	}
	if r1.err != nil || r1.ok != base.ok {
		return fmt.Errorf("appending an unrelated field changed the result: %v/%v -> %v/%v", base.ok, base.err, r1.ok, r1.err)
	}
	// 2. wrap one level deeper and prefix all paths
	d2 := bson.D{{Key: "w", Value: copyD(doc)}}
	f2 := mapFilter(flt, func(p string) string { return "w." + p }, id, true)
	r2 := lmatch(d2, f2)
	if r2.panic {
		return r2.err
	}
	if r2.err != nil || r2.ok != base.ok {
		return fmt.Errorf("wrapping the document and prefixing the paths changed the result: %v -> %v/%v (filter %s)", base.ok, r2.ok, r2.err, show(f2))
	}
	// 3. consistent, order-preserving renaming of fields
	d3 := renameValue(doc).(bson.D)
	f3 := mapFilter(flt, renamePath, renameValue, true)
	r3 := lmatch(d3, f3)
	if r3.panic {
		return r3.err
	}
	if r3.err != nil || r3.ok != base.ok {
		return fmt.Errorf("renaming fields consistently changed the result: %v -> %v/%v (filter %s)", base.ok, r3.ok, r3.err, show(f3))
	}
	var paths []string
	filterPaths(flt, &paths)
	for _, p := range paths {
		for _, b := range ref.Walk(doc, strings.Split(p, "."), false) {
			if b.V != ref.Missing {
				x.NonTrivial()
			}
		}
	}
	if base.ok {
		x.Class("base-true")
	} else {
		x.Class("base-false")
	}
	return nil
}

var propC10Meta = Register(&Prop{ID: "C10", Sub: "meta", Gen: genC10Meta, Run: runC10Meta})

func TestProp_C10_meta(t *testing.T) { propC10Meta.Check(t) }

// ---------------------------------------------------------------- $jsonSchema agreement
//
// (document, schema) pairs: the schema is generated over the document's key
// alphabet with every supported keyword; {$jsonSchema: schema} - alone, next
// to a field condition, and under $nor - must give the truth value of the
// independent reference evaluator ref.SchemaValid.

func genC10Schema(t *rapid.T) bson.D {
	cfg := gen.Core
	doc := cfg.Doc(2, 4).Draw(t, "doc")
	if rapid.IntRange(0, 2).Draw(t, "withid") == 0 {
		doc = append(bson.D{{Key: "_id", Value: int32(1)}}, doc...)
	}
	schema := cfg.Schema(2).Draw(t, "schema")
	// most schemas constrain the document through properties
	if rapid.IntRange(0, 2).Draw(t, "wrap") > 0 {
		k := rapid.SampledFrom([]string{"a", "b", "c"}).Draw(t, "wk")
		schema = bson.D{{Key: "properties", Value: bson.D{{Key: k, Value: schema}}}}
		if rapid.Bool().Draw(t, "wreq") {
			schema = append(schema, bson.E{Key: "required", Value: bson.A{k}})
		}
	}
	return bson.D{{Key: "doc", Value: doc}, {Key: "schema", Value: schema}}
}

func runC10Schema(c bson.D, x *Ctx) error {
	doc := asD(getD(c, "doc"))
	schema := asD(getD(c, "schema"))
	want, rerr := ref.SchemaValid(schema, doc)
	if rerr != nil {
		x.Class("outside-reference")
		return nil
	}
	filter := bson.D{{Key: "$jsonSchema", Value: schema}}
	got := lmatch(doc, filter)
	if got.panic {
		return got.err
	}
	if got.err != nil {
		return fmt.Errorf("mongokit.Match rejects the well-formed schema %s: %v", show(schema), got.err)
	}
	if got.ok != want {
		// known finding: array-form dependencies are applied even when the
		// dependent property is absent; told apart by re-evaluating the
		// reference with exactly that deviation
		ref.SchemaDepsUnconditional = true
		alt, _ := ref.SchemaValid(schema, doc)
		ref.SchemaDepsUnconditional = false
		if alt == got.ok && x.Known("C10-jsonschema-dependencies-array-unconditional") {
			return nil
		}
		return fmt.Errorf("{$jsonSchema: %s} on %s: mongokit.Match = %v, reference evaluation says %v", show(schema), show(doc), got.ok, want)
	}
	// negation and conjunction with a field condition
	nor := lmatch(doc, bson.D{{Key: "$nor", Value: bson.A{filter}}})
	if nor.err != nil || nor.ok == want {
		return fmt.Errorf("{$nor: [{$jsonSchema: ...}]} = %v (%v) although the schema evaluates to %v", nor.ok, nor.err, want)
	}
	x.Class(fmt.Sprintf("valid=%v", want))
	if len(schema) >= 2 || len(doc) >= 2 {
		x.NonTrivial()
	}
	return nil
}

var propC10Schema = Register(&Prop{ID: "C10", Sub: "schema", Gen: genC10Schema, Run: runC10Schema})

func TestProp_C10_schema(t *testing.T) { propC10Schema.Check(t) }
