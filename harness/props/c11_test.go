package props

import (
	"bytes"
	"context"
	"fmt"
	"go.mongodb.org/mongo-driver/mongo"
	"strconv"
	"strings"
	"testing"

	"github.com/256dpi/lungo"
	"github.com/256dpi/lungo/mongokit"
	"go.mongodb.org/mongo-driver/bson"
	"go.mongodb.org/mongo-driver/mongo/options"
	"pgregory.net/rapid"

	"verifharness/gen"
	"verifharness/ref"
)

// lapply applies an update through mongokit.Apply on a private copy.
type applyRes struct {
	doc   bson.D
	err   error
	panic bool
}

func lapply(doc, update bson.D, upsert bool, arrayFilters bson.A) applyRes {
	d := copyD(doc)
	u := copyD(update)
	var afs []*bson.D
	for _, f := range arrayFilters {
		fd := copyD(asD(f))
		afs = append(afs, &fd)
	}
	var r applyRes
	func() {
		defer func() {
			if p := recover(); p != nil {
				r.panic = true
				r.err = fmt.Errorf("mongokit.Apply panicked: %v", p)
			}
		}()
		_, r.err = mongokit.Apply(&d, &bson.D{}, &u, upsert, afs)
	}()
	r.doc = d
	return r
}

func bytesEq(a, b bson.D) bool { return bytes.Equal(marshal(a), marshal(b)) }

// ---------------------------------------------------------------- single operator agreement

// genC11PullDocs: $pull with a document condition (a query on the fields of
// each element, a comparison inside it, or the empty condition) on an array
// of embedded documents that carry more fields than the condition names.
func genC11PullDocs(t *rapid.T) bson.D {
	pick := func(label string, n int) int { return rapid.IntRange(0, 999).Draw(t, label) % n }
	elems := bson.A{}
	for i, n := 0, 1+pick("pdN", 4); i < n; i++ {
		switch pick("pdKind", 6) {
		case 0:
			elems = append(elems, int32(pick("pdS", 3)))
		case 1:
			elems = append(elems, bson.D{{Key: "c", Value: "x"}})
		default:
			e := bson.D{{Key: "b", Value: int32(pick("pdB", 3))}}
			if pick("pdExtra", 2) == 1 {
				e = append(bson.D{{Key: "item", Value: "i"}}, e...)
			}
			elems = append(elems, e)
		}
	}
	var cond bson.D
	switch pick("pdCond", 4) {
	case 0:
		cond = bson.D{{Key: "b", Value: int32(pick("pdV", 3))}}
	case 1:
		cond = bson.D{{Key: "b", Value: bson.D{{Key: "$gte", Value: int32(pick("pdV", 3))}}}}
	case 2:
		cond = bson.D{{Key: "b", Value: int32(pick("pdV", 3))}, {Key: "item", Value: "i"}}
	default:
		cond = bson.D{}
	}
	return bson.D{{Key: "doc", Value: bson.D{{Key: "a", Value: elems}, {Key: "z", Value: int32(1)}}}, {Key: "op", Value: "$pull"}, {Key: "path", Value: "a"}, {Key: "arg", Value: cond}, {Key: "upsert", Value: false}}
}

func genC11Single(t *rapid.T) bson.D {
	if rapid.IntRange(0, 999).Draw(t, "shape")%12 == 5 {
		return genC11PullDocs(t)
	}
	cfg := gen.Core
	doc := cfg.Doc(2, 3).Draw(t, "doc")
	op := rapid.SampledFrom(gen.UpdateOps).Draw(t, "op")
	var path string
	var arg interface{}
	gen.WithHint(gen.HintOf(doc), func() {
		path = cfg.PathFrom(t, gen.UPaths)
		arg = cfg.UpdateArg(op).Draw(t, "arg")
	})
	upsert := rapid.IntRange(0, 4).Draw(t, "upsert") == 0
	return bson.D{{Key: "doc", Value: doc}, {Key: "op", Value: op}, {Key: "path", Value: path}, {Key: "arg", Value: arg}, {Key: "upsert", Value: upsert}}
}

func isNestedPath(p string) bool { return strings.Contains(p, ".") }

// equalUpToFieldOrder compares two values ignoring the order of document
// fields (array order matters).
func runC11Single(c bson.D, x *Ctx) error {
	doc := asD(getD(c, "doc"))
	op := asS(getD(c, "op"))
	path := asS(getD(c, "path"))
	arg := getD(c, "arg")
	upsert := asB(getD(c, "upsert"))
	want := copyD(doc)
	werr := ref.ApplyOp(&want, op, path, deepCopy(arg), upsert)
	upd := bson.D{{Key: op, Value: bson.D{{Key: path, Value: arg}}}}
	got := lapply(doc, upd, upsert, nil)
	if got.panic {
		return got.err
	}
	if werr == ref.ErrOutside {
		x.Class("outside-core-domain")
		return nil
	}
	x.Class("op:" + op)
	if werr != nil {
		x.Class("ref-rejects")
		if got.err == nil {
			return fmt.Errorf("update %s accepted (result %s) but MongoDB's semantics reject it", show(upd), show(got.doc))
		}
		x.NonTrivial()
		return nil
	}
	if got.err != nil {
		return fmt.Errorf("update %s rejected (%v) but the reference result is %s", show(upd), got.err, show(want))
	}
	if !bytesEq(want, got.doc) {
		// the position of a $rename target is version dependent (DESIGN.md 8.2):
		// compared up to field order
		if !(op == "$rename" && equalUpToFieldOrder(want, got.doc)) {
			return fmt.Errorf("update %s gives %s, reference semantics give %s", show(upd), show(got.doc), show(want))
		}
	}
	changed := !bytesEq(want, doc)
	if changed {
		x.Class("changed")
		if isNestedPath(path) {
			x.NonTrivial()
		}
	} else {
		x.Class("unchanged")
	}
	// untouched top-level fields keep value and position
	top := strings.Split(path, ".")[0]
	top2 := top
	if to, ok := arg.(string); ok && op == "$rename" {
		top2 = strings.Split(to, ".")[0]
	}
	j := 0
	for _, e := range doc {
		if e.Key == top || e.Key == top2 {
			continue
		}
		// find in result, must appear in the same relative order
		found := false
		for ; j < len(got.doc); j++ {
			if got.doc[j].Key == e.Key {
				if !bytes.Equal(marshal(bson.D{{Key: "v", Value: e.Value}}), marshal(bson.D{{Key: "v", Value: got.doc[j].Value}})) {
					return fmt.Errorf("untouched field %q changed its value", e.Key)
				}
				found = true
				j++
				break
			}
		}
		if !found && op != "$rename" {
			return fmt.Errorf("untouched field %q lost or moved (result %s)", e.Key, show(got.doc))
		}
	}
	return nil
}

var propC11Single = Register(&Prop{ID: "C11", Sub: "single", Gen: genC11Single, Run: runC11Single})

func TestProp_C11_single(t *testing.T) { propC11Single.Check(t) }

// ---------------------------------------------------------------- driver level: idempotence, modified count, rejection as a whole

var idempotentOps = []string{"$set", "$unset", "$min", "$max", "$addToSet", "$pull", "$pullAll"}

func genC11Driver(t *rapid.T) bson.D {
	cfg := gen.Wide
	doc := cfg.Doc(2, 3).Draw(t, "doc")
	other := cfg.Doc(1, 2).Draw(t, "other")
	var upd bson.D
	idem := rapid.Bool().Draw(t, "idem")
	gen.WithHint(gen.HintOf(doc), func() {
		if idem {
			upd = genUpdateDoc(t, cfg, idempotentOps, 2)
		} else {
			upd = genUpdateDoc(t, cfg, gen.UpdateOps, 3)
		}
	})
	return bson.D{{Key: "doc", Value: doc}, {Key: "other", Value: other}, {Key: "update", Value: upd}, {Key: "idem", Value: idem}}
}

func newMemEngine() (lungo.IClient, *lungo.Engine, error) {
	return lungo.Open(context.Background(), lungo.Options{Store: lungo.NewMemoryStore(), ExpireInterval: 24 * 3600 * 1e9})
}

func findAll(coll lungo.ICollection) ([]bson.D, error) {
	cur, err := coll.Find(context.Background(), bson.D{})
	if err != nil {
		return nil, err
	}
	var out []bson.D
	if err := cur.All(context.Background(), &out); err != nil {
		return nil, err
	}
	return out, nil
}

func runC11Driver(c bson.D, x *Ctx) (err error) {
	doc := append(bson.D{{Key: "_id", Value: int32(1)}}, asD(getD(c, "doc"))...)
	other := append(bson.D{{Key: "_id", Value: int32(2)}}, asD(getD(c, "other"))...)
	upd := asD(getD(c, "update"))
	idem := asB(getD(c, "idem"))
	client, engine, e := newMemEngine()
	if e != nil {
		return fmt.Errorf("harness: %v", e)
	}
	defer engine.Close()
	defer func() {
		if p := recover(); p != nil {
			err = fmt.Errorf("driver call panicked: %v", p)
		}
	}()
	ctx := context.Background()
	coll := client.Database("db").Collection("c")
	if _, e := coll.InsertMany(ctx, []interface{}{doc, other}); e != nil {
		return fmt.Errorf("harness: insert failed: %v", e)
	}
	before, e := findAll(coll)
	if e != nil {
		return e
	}
	res, uerr := coll.UpdateOne(ctx, bson.D{{Key: "_id", Value: int32(1)}}, upd)
	after, e := findAll(coll)
	if e != nil {
		return e
	}
	if len(after) != 2 || !bytesEq(after[1], before[1]) {
		return fmt.Errorf("the update touched another document or changed the document count")
	}
	if uerr != nil {
		x.Class("rejected")
		// rejected as a whole
		if !bytesEq(after[0], before[0]) {
			return fmt.Errorf("rejected update (%v) changed the document: %s -> %s", uerr, show(before[0]), show(after[0]))
		}
		if strings.Contains(fmt.Sprint(upd), "a.") || len(upd) > 1 {
			x.NonTrivial()
		}
		return nil
	}
	// what is stored is what the reference semantics produce (a write that
	// only changes the type of a number is a change too)
	if want, rerr := ref.ApplyUpdate(before[0], upd, nil, false); rerr == nil {
		if !equalUpToFieldOrder(after[0], want) {
			return fmt.Errorf("UpdateOne with %s stored %s, reference semantics give %s", show(upd), show(after[0]), show(want))
		}
		if !equalUpToFieldOrder(want, before[0]) && res.ModifiedCount != 1 {
			return fmt.Errorf("UpdateOne with %s changes the document (%s -> %s) but reports ModifiedCount = %d", show(upd), show(before[0]), show(want), res.ModifiedCount)
		}
		x.Class("stored-result-checked-against-reference")
	}
	changed := !bytesEq(after[0], before[0])
	if res.MatchedCount != 1 {
		return fmt.Errorf("MatchedCount = %d, want 1", res.MatchedCount)
	}
	if changed != (res.ModifiedCount == 1) {
		return fmt.Errorf("ModifiedCount = %d but document bytes changed = %v (%s -> %s)", res.ModifiedCount, changed, show(before[0]), show(after[0]))
	}
	if changed {
		x.Class("modified")
		x.NonTrivial()
	} else {
		x.Class("noop")
	}
	// _id never changes
	if !bytes.Equal(marshal(bson.D{{Key: "v", Value: after[0][0].Value}}), marshal(bson.D{{Key: "v", Value: int32(1)}})) || after[0][0].Key != "_id" {
		return fmt.Errorf("_id changed or moved: %s", show(after[0]))
	}
	if idem {
		// applying the same update again changes nothing and reports zero modified
		// (every other case with the upsert option, which is without effect
		// on an update that matches)
		uo := options.Update()
		if len(marshal(upd))%2 == 0 {
			uo.SetUpsert(true)
			x.Class("second-application-with-upsert")
		}
		res2, uerr2 := coll.UpdateOne(ctx, bson.D{{Key: "_id", Value: int32(1)}}, upd, uo)
		after2, e := findAll(coll)
		if e != nil {
			return e
		}
		if len(after2) != 2 {
			return fmt.Errorf("second application of %s (matching, upsert option %v) left %d documents instead of 2", show(upd), uo.Upsert != nil, len(after2))
		}
		if uerr2 != nil && lungo.IsUniquenessError(uerr2) {
			return fmt.Errorf("second application of %s matches the document, changes nothing and was rejected for uniqueness: %v", show(upd), uerr2)
		}
		if uerr2 == nil && (res2.MatchedCount != 1 || res2.UpsertedCount != 0) {
			return fmt.Errorf("second application of %s reports MatchedCount = %d, UpsertedCount = %d; it matches the document", show(upd), res2.MatchedCount, res2.UpsertedCount)
		}
		if uerr2 != nil {
			// with several paths one operator's first effect can turn another
			// operator's target into something it rejects ({$pullAll: {"a.0":
			// []}, $set: {"a.1": 0}} on {a: []}); the update is then rejected
			// as a whole, which still "changes nothing"
			npaths := 0
			for _, oe := range upd {
				npaths += len(asD(oe.Value))
			}
			if npaths < 2 {
				return fmt.Errorf("second application of an accepted idempotent update was rejected: %v", uerr2)
			}
			if !bytesEq(after2[0], after[0]) {
				return fmt.Errorf("second application of %s was rejected (%v) but changed the document: %s -> %s", show(upd), uerr2, show(after[0]), show(after2[0]))
			}
			x.Class("idempotence-second-application-rejected")
			return nil
		}
		if !bytesEq(after2[0], after[0]) {
			return fmt.Errorf("second application of %s changed the document again: %s -> %s", show(upd), show(after[0]), show(after2[0]))
		}
		if res2.ModifiedCount != 0 {
			return fmt.Errorf("second application reports ModifiedCount = %d", res2.ModifiedCount)
		}
		// ... and so do further applications through BulkWrite's update models
		bres, berr := coll.BulkWrite(ctx, []mongo.WriteModel{
			mongo.NewUpdateOneModel().SetFilter(bson.D{{Key: "_id", Value: int32(1)}}).SetUpdate(upd),
			mongo.NewUpdateManyModel().SetFilter(bson.D{{Key: "_id", Value: bson.D{{Key: "$in", Value: bson.A{int32(1)}}}}}).SetUpdate(upd),
		})
		if berr == nil {
			if bres.MatchedCount != 2 || bres.ModifiedCount != 0 {
				return fmt.Errorf("two further applications of %s through BulkWrite report MatchedCount = %d, ModifiedCount = %d; they match twice and change nothing", show(upd), bres.MatchedCount, bres.ModifiedCount)
			}
			after3, e := findAll(coll)
			if e != nil {
				return e
			}
			if len(after3) != 2 || !bytesEq(after3[0], after[0]) {
				return fmt.Errorf("further applications of %s through BulkWrite changed the document again", show(upd))
			}
			x.Class("idempotence-checked-through-bulk-write")
		}
		x.Class("idempotence-checked")
	}
	return nil
}

var propC11Driver = Register(&Prop{ID: "C11", Sub: "driver", Gen: genC11Driver, Run: runC11Driver})

func TestProp_C11_driver(t *testing.T) { propC11Driver.Check(t) }

// ---------------------------------------------------------------- operator independence and positional operators

func genC11Multi(t *rapid.T) bson.D {
	cfg := gen.Core
	doc := cfg.Doc(2, 4).Draw(t, "doc")
	// k operators on distinct top-level fields
	tops := []string{"a", "b", "c", "d"}
	n := rapid.IntRange(2, 3).Draw(t, "k")
	perm := rapid.Permutation(tops).Draw(t, "perm")
	parts := bson.A{}
	gen.WithHint(gen.HintOf(doc), func() {
		for i := 0; i < n; i++ {
			op := rapid.SampledFrom(gen.UpdateOps).Draw(t, "op")
			if op == "$rename" {
				op = "$set"
			}
			top := perm[i]
			suffix := rapid.SampledFrom([]string{"", "", ".b", ".0", ".c.a", ".1.b"}).Draw(t, "suffix")
			parts = append(parts, bson.D{{Key: op, Value: bson.D{{Key: top + suffix, Value: cfg.UpdateArg(op).Draw(t, "arg")}}}})
		}
	})
	return bson.D{{Key: "doc", Value: doc}, {Key: "parts", Value: parts}}
}

func runC11Multi(c bson.D, x *Ctx) error {
	doc := asD(getD(c, "doc"))
	parts := asA(getD(c, "parts"))
	// combined update: merge parts by operator, keeping first-occurrence order
	combined := bson.D{}
	for _, p := range parts {
		pe := asD(p)[0]
		merged := false
		for i := range combined {
			if combined[i].Key == pe.Key {
				combined[i].Value = append(combined[i].Value.(bson.D), asD(pe.Value)...)
				merged = true
			}
		}
		if !merged {
			combined = append(combined, bson.E{Key: pe.Key, Value: copyD(asD(pe.Value))})
		}
	}
	all := lapply(doc, combined, false, nil)
	if all.panic {
		return all.err
	}
	// sequential application in the order lungo processes the combined update
	// (operator by operator)
	cur := copyD(doc)
	var seqErr error
	for _, ce := range combined {
		for _, f := range asD(ce.Value) {
			r := lapply(cur, bson.D{{Key: ce.Key, Value: bson.D{f}}}, false, nil)
			if r.panic {
				return r.err
			}
			if r.err != nil {
				seqErr = r.err
				break
			}
			cur = r.doc
		}
		if seqErr != nil {
			break
		}
	}
	if (all.err != nil) != (seqErr != nil) {
		return fmt.Errorf("combined update %s: error=%v, but applying its operators one by one: error=%v", show(combined), all.err, seqErr)
	}
	if all.err != nil {
		x.Class("both-reject")
		return nil
	}
	if !bytesEq(all.doc, cur) {
		return fmt.Errorf("combined update %s gives %s, one operator at a time gives %s", show(combined), show(all.doc), show(cur))
	}
	if !bytesEq(all.doc, doc) {
		x.NonTrivial()
		x.Class("changed")
	} else {
		x.Class("unchanged")
	}
	return nil
}

var propC11Multi = Register(&Prop{ID: "C11", Sub: "multi", Gen: genC11Multi, Run: runC11Multi})

func TestProp_C11_multi(t *testing.T) { propC11Multi.Check(t) }

// positional: $[] == explicit indices; $[id] with array filters == explicit
// indices of the elements the reference matcher selects.

func genC11Positional(t *rapid.T) bson.D {
	cfg := gen.Core
	n := rapid.IntRange(0, 4).Draw(t, "n")
	arr := bson.A{}
	docs := rapid.Bool().Draw(t, "docs")
	for i := 0; i < n; i++ {
		if docs {
			arr = append(arr, bson.D{{Key: "b", Value: cfg.Scalar().Draw(t, "b")}, {Key: "c", Value: rapid.SampledFrom([]interface{}{int32(1), int32(2), "x"}).Draw(t, "c")}})
		} else {
			arr = append(arr, cfg.Scalar().Draw(t, "e"))
		}
	}
	arr2 := bson.A{}
	for i, m := 0, rapid.IntRange(0, 3).Draw(t, "m"); i < m; i++ {
		arr2 = append(arr2, rapid.SampledFrom([]interface{}{int32(1), int32(2), int32(3), "x", nil}).Draw(t, "e2"))
	}
	doc := bson.D{{Key: "a", Value: arr}, {Key: "d", Value: arr2}, {Key: "z", Value: int32(7)}}
	op := rapid.SampledFrom([]string{"$set", "$inc", "$unset", "$min", "$max", "$mul"}).Draw(t, "op")
	arg := cfg.UpdateArg(op).Draw(t, "arg")
	useID := rapid.Bool().Draw(t, "useID")
	second := useID && rapid.Bool().Draw(t, "second")
	tail := ""
	if docs {
		tail = rapid.SampledFrom([]string{".b", ".c", ".d", ""}).Draw(t, "tail")
	}
	var filters bson.A
	// identifier names; one may be a textual prefix of the other
	ids := rapid.SampledFrom([][2]string{{"x", "y"}, {"x", "y"}, {"x", "xy"}, {"xy", "x"}, {"e", "el"}, {"i1", "i"}}).Draw(t, "ids")
	idX, idY := ids[0], ids[1]
	if useID {
		var cond interface{}
		gen.WithHint(gen.HintOf(doc), func() {
			if docs {
				cond = bson.D{{Key: idX + ".c", Value: rapid.SampledFrom([]interface{}{int32(1), int32(2), "x", bson.D{{Key: "$ne", Value: int32(1)}}}).Draw(t, "fc")}}
			} else {
				e := rapid.SampledFrom([]string{"$gte", "$lt", "$eq", "$ne", "$in"}).Draw(t, "fop")
				var v interface{} = cfg.Scalar().Draw(t, "fv")
				if e == "$in" {
					v = bson.A{v, cfg.Scalar().Draw(t, "fv2")}
				}
				cond = bson.D{{Key: idX, Value: bson.D{{Key: e, Value: v}}}}
			}
		})
		filters = append(filters, cond)
		if second {
			// a second identifier y used on the array d; its filter may be one
			// that also holds for documents that lack y
			filters = append(filters, bson.D{{Key: idY, Value: rapid.SampledFrom([]interface{}{int32(1), bson.D{{Key: "$ne", Value: int32(1)}}, nil, bson.D{{Key: "$exists", Value: false}}, bson.D{{Key: "$gte", Value: int32(2)}}, bson.D{{Key: "$nin", Value: bson.A{int32(2), "x"}}}}).Draw(t, "fy")}})
		}
	}
	return bson.D{{Key: "doc", Value: doc}, {Key: "op", Value: op}, {Key: "arg", Value: arg}, {Key: "useID", Value: useID}, {Key: "tail", Value: tail}, {Key: "filters", Value: filters}, {Key: "second", Value: second}, {Key: "ids", Value: bson.A{idX, idY}}}
}

func runC11Positional(c bson.D, x *Ctx) error {
	doc := asD(getD(c, "doc"))
	op := asS(getD(c, "op"))
	arg := getD(c, "arg")
	useID := asB(getD(c, "useID"))
	second := asB(getD(c, "second"))
	tail := asS(getD(c, "tail"))
	filters := asA(getD(c, "filters"))
	arr := asA(getD(doc, "a"))
	arr2 := asA(getD(doc, "d"))
	idX, idY := "x", "y"
	if ids := asA(getD(c, "ids")); len(ids) == 2 {
		idX, idY = asS(ids[0]), asS(ids[1])
	}
	// expected concrete paths, from the reference matcher
	var paths []string
	for i, el := range arr {
		if useID {
			m, err := ref.Match(bson.D{{Key: idX, Value: el}}, asD(filters[0]))
			if err == ref.ErrOutside || err == ref.ErrInvalid {
				x.Class("filter-outside-reference")
				return nil
			}
			if !m {
				continue
			}
		}
		paths = append(paths, "a."+strconv.Itoa(i)+tail)
	}
	na := len(paths)
	if second {
		for i, el := range arr2 {
			m, err := ref.Match(bson.D{{Key: idY, Value: el}}, asD(filters[1]))
			if err == ref.ErrOutside || err == ref.ErrInvalid {
				x.Class("filter-outside-reference")
				return nil
			}
			if m {
				paths = append(paths, "d."+strconv.Itoa(i))
			}
		}
	}
	pos := "a.$[]"
	if useID {
		pos = "a.$[" + idX + "]"
	}
	fields := bson.D{{Key: pos + tail, Value: arg}}
	if second {
		fields = append(fields, bson.E{Key: "d.$[" + idY + "]", Value: arg})
	}
	positional := lapply(doc, bson.D{{Key: op, Value: fields}}, false, filters)
	if positional.panic {
		return positional.err
	}
	cur := copyD(doc)
	var seqErr error
	for _, p := range paths {
		r := lapply(cur, bson.D{{Key: op, Value: bson.D{{Key: p, Value: arg}}}}, false, nil)
		if r.panic {
			return r.err
		}
		if r.err != nil {
			seqErr = r.err
			break
		}
		cur = r.doc
	}
	if (positional.err != nil) != (seqErr != nil) {
		return fmt.Errorf("%s %s with filters %s: error=%v, explicit paths %v: error=%v", op, show(fields), show(filters), positional.err, paths, seqErr)
	}
	if positional.err != nil {
		x.Class("both-reject")
		return nil
	}
	if !bytesEq(positional.doc, cur) {
		return fmt.Errorf("%s on %s (filters %s) gives %s, explicit paths %v give %s", op, show(fields), show(filters), show(positional.doc), paths, show(cur))
	}
	if na > 0 && na < len(arr) {
		x.Class("proper-subset-selected")
	}
	if second {
		x.Class("two-identifiers")
	}
	if len(paths) > 0 && !bytesEq(cur, doc) {
		x.NonTrivial()
	}
	return nil
}

var propC11Positional = Register(&Prop{ID: "C11", Sub: "positional", Gen: genC11Positional, Run: runC11Positional})

func TestProp_C11_positional(t *testing.T) { propC11Positional.Check(t) }

// ---------------------------------------------------------------- conflicting paths
//
// An update that writes a path and, effectively, one of its ancestors is
// rejected as a whole (MongoDB: "would create a conflict"). Only pairs in
// which both writes are certainly effective are generated ($set of a fresh
// value, $inc, $push of a fresh value), in both orders, inside one operator
// or across two.

func genC11Conflict(t *rapid.T) bson.D {
	cfg := gen.Core
	doc := cfg.Doc(2, 3).Draw(t, "doc")
	parent := rapid.SampledFrom([]string{"a", "b", "c", "a.b", "d"}).Draw(t, "parent")
	child := parent + "." + rapid.SampledFrom([]string{"b", "x", "b.c", "x.y"}).Draw(t, "child")
	kinds := []string{"set", "set", "inc", "push"}
	k1 := rapid.SampledFrom(kinds).Draw(t, "k1")
	k2 := rapid.SampledFrom(kinds).Draw(t, "k2")
	return bson.D{{Key: "doc", Value: doc}, {Key: "parent", Value: parent}, {Key: "child", Value: child}, {Key: "kParent", Value: k1}, {Key: "kChild", Value: k2},
		{Key: "childFirst", Value: rapid.Bool().Draw(t, "childFirst")}, {Key: "parentDoc", Value: rapid.Bool().Draw(t, "parentDoc")}}
}

func runC11Conflict(c bson.D, x *Ctx) error {
	doc := append(bson.D{{Key: "_id", Value: int32(1)}}, asD(getD(c, "doc"))...)
	parent, child := asS(getD(c, "parent")), asS(getD(c, "child"))
	mk := func(kind, path, tag string) (string, bson.E) {
		switch kind {
		case "inc":
			return "$inc", bson.E{Key: path, Value: int32(1)}
		case "push":
			return "$push", bson.E{Key: path, Value: "fresh-" + tag}
		}
		var v interface{} = "fresh-" + tag
		if tag == "p" && asB(getD(c, "parentDoc")) {
			v = bson.D{{Key: "fresh", Value: "p"}}
		}
		return "$set", bson.E{Key: path, Value: v}
	}
	opP, fP := mk(asS(getD(c, "kParent")), parent, "p")
	opC, fC := mk(asS(getD(c, "kChild")), child, "c")
	type item struct {
		op string
		f  bson.E
	}
	items := []item{{opP, fP}, {opC, fC}}
	if asB(getD(c, "childFirst")) {
		items = []item{{opC, fC}, {opP, fP}}
	}
	upd := bson.D{}
	for _, it := range items {
		placed := false
		for i := range upd {
			if upd[i].Key == it.op {
				upd[i].Value = append(upd[i].Value.(bson.D), it.f)
				placed = true
			}
		}
		if !placed {
			upd = append(upd, bson.E{Key: it.op, Value: bson.D{it.f}})
		}
	}
	r := lapply(doc, upd, false, nil)
	if r.panic {
		return r.err
	}
	if r.err == nil {
		return fmt.Errorf("update %s on %s writes %q and its ancestor %q and was accepted (result %s); conflicting paths must be rejected as a whole", show(upd), show(doc), child, parent, show(r.doc))
	}
	// through the driver API: rejected and nothing stored changes
	client, engine, e := newMemEngine()
	if e != nil {
		return fmt.Errorf("harness: %v", e)
	}
	defer engine.Close()
	ctx := context.Background()
	coll := client.Database("db").Collection("c")
	if _, e := coll.InsertOne(ctx, doc); e != nil {
		x.Class("insert-rejected")
		return nil
	}
	_, uerr := coll.UpdateOne(ctx, bson.D{{Key: "_id", Value: int32(1)}}, copyD(upd))
	if uerr == nil {
		return fmt.Errorf("UpdateOne with %s was accepted although it writes %q and its ancestor %q", show(upd), child, parent)
	}
	got, ferr := findDocs(coll, bson.D{})
	if ferr != nil || len(got) != 1 || !bytesEq(got[0], doc) {
		return fmt.Errorf("the rejected update %s changed the stored document: %s -> %v (%v)", show(upd), show(doc), got, ferr)
	}
	x.Class("kinds:" + asS(getD(c, "kParent")) + "+" + asS(getD(c, "kChild")))
	x.NonTrivial()
	return nil
}

var propC11Conflict = Register(&Prop{ID: "C11", Sub: "conflict", Gen: genC11Conflict, Run: runC11Conflict})

func TestProp_C11_conflict(t *testing.T) { propC11Conflict.Check(t) }

var _ = options.Update
