package props

import (
	"fmt"
	"math"
	"testing"

	"github.com/256dpi/lungo/bsonkit"
	"go.mongodb.org/mongo-driver/bson"
	"go.mongodb.org/mongo-driver/bson/primitive"
	"pgregory.net/rapid"

	"verifharness/gen"
	"verifharness/ref"
)

// C12: BSON comparison is a total order consistent with the MongoDB type
// order. Case = {a, b, c}: a triple whose members are frequently mutations of
// each other (equal prefix, late difference, numeric type swap).

func genC12(t *rapid.T) bson.D {
	cfg := gen.Wide
	cfg.Extremes = true
	a := cfg.Value(3, false).Draw(t, "a")
	var b, c interface{}
	switch rapid.IntRange(0, 3).Draw(t, "bm") {
	case 0:
		b = cfg.Value(3, false).Draw(t, "b")
	default:
		b = cfg.Mutate(a, t)
	}
	switch rapid.IntRange(0, 3).Draw(t, "cm") {
	case 0:
		c = cfg.Value(3, false).Draw(t, "c")
	case 1:
		c = cfg.Mutate(a, t)
	default:
		c = cfg.Mutate(b, t)
	}
	return bson.D{{Key: "a", Value: a}, {Key: "b", Value: b}, {Key: "c", Value: c}}
}

func numKinds(v interface{}, out map[string]bool) {
	switch x := v.(type) {
	case int32:
		out["i32"] = true
	case int64:
		out["i64"] = true
	case float64:
		out["f64"] = true
	case primitive.Decimal128:
		out["d128"] = true
	case bson.D:
		for _, e := range x {
			numKinds(e.Value, out)
		}
	case bson.A:
		for _, e := range x {
			numKinds(e, out)
		}
	}
}

func hasNonFiniteDec(v interface{}) bool {
	switch x := v.(type) {
	case primitive.Decimal128:
		_, _, err := x.BigInt()
		return err != nil
	case bson.D:
		for _, e := range x {
			if hasNonFiniteDec(e.Value) {
				return true
			}
		}
	case bson.A:
		for _, e := range x {
			if hasNonFiniteDec(e) {
				return true
			}
		}
	}
	return false
}

func hasKind(v interface{}, f func(interface{}) bool) bool {
	if f(v) {
		return true
	}
	switch x := v.(type) {
	case bson.D:
		for _, e := range x {
			if hasKind(e.Value, f) {
				return true
			}
		}
	case bson.A:
		for _, e := range x {
			if hasKind(e, f) {
				return true
			}
		}
	}
	return false
}

func isFloat(v interface{}) bool { _, ok := v.(float64); return ok }
func isDec(v interface{}) bool   { _, ok := v.(primitive.Decimal128); return ok }
func isNaNFloat(v interface{}) bool {
	f, ok := v.(float64)
	return ok && math.IsNaN(f)
}

func lcmp(a, b interface{}) (r int, err error) {
	defer func() {
		if p := recover(); p != nil {
			err = fmt.Errorf("Compare(%s, %s) panicked: %v", show(a), show(b), p)
		}
	}()
	return sign(bsonkit.Compare(a, b)), nil
}

func runC12(c bson.D, x *Ctx) error {
	vals := []interface{}{getD(c, "a"), getD(c, "b"), getD(c, "c")}
	names := []string{"a", "b", "c"}
	var m [3][3]int
	for i := range vals {
		for j := range vals {
			r, err := lcmp(vals[i], vals[j])
			if err != nil {
				return err
			}
			m[i][j] = r
		}
	}
	// classification
	kinds := map[string]bool{}
	for _, v := range vals {
		numKinds(v, kinds)
	}
	sameClassDiffer := false
	for i := 0; i < 3; i++ {
		for j := i + 1; j < 3; j++ {
			if ref.Class(vals[i]) == ref.Class(vals[j]) {
				x.Class("pair-same-class")
				if m[i][j] != 0 {
					sameClassDiffer = true
				} else if fmt.Sprintf("%T", vals[i]) != fmt.Sprintf("%T", vals[j]) {
					sameClassDiffer = true
					x.Class("equal-across-go-types")
				}
				if ref.Class(vals[i]) >= 4 && ref.Class(vals[i]) <= 5 {
					x.Class("pair-container")
				}
			} else {
				x.Class("pair-cross-class")
			}
		}
	}
	if sameClassDiffer || len(kinds) >= 2 {
		x.NonTrivial()
	}
	if len(kinds) >= 2 {
		x.Class("triple-multi-numeric")
	}

	// 1. reflexive on a deep copy
	for i, v := range vals {
		r, err := lcmp(v, deepCopy(v))
		if err != nil {
			return err
		}
		if r != 0 {
			return fmt.Errorf("not reflexive: Compare(%s, copy) = %d", names[i], r)
		}
	}
	// 2. agreement with the reference order (class order, exact numeric order,
	// nested comparison) — checked first so that known numeric classes can be
	// attributed precisely
	excluded := false
	for i := 0; i < 3; i++ {
		for j := 0; j < 3; j++ {
			want := ref.Cmp(vals[i], vals[j])
			if m[i][j] != want {
				if hasNonFiniteDec(vals[i]) || hasNonFiniteDec(vals[j]) {
					if x.Known("C12-decimal-nonfinite") {
						excluded = true
						continue
					}
				}
				if (hasKind(vals[i], isFloat) && hasKind(vals[j], isDec)) || (hasKind(vals[j], isFloat) && hasKind(vals[i], isDec)) {
					if x.Known("C12-float-decimal-inexact") {
						excluded = true
						continue
					}
				}
				return fmt.Errorf("Compare(%s=%s, %s=%s) = %d, reference order says %d", names[i], show(vals[i]), names[j], show(vals[j]), m[i][j], want)
			}
		}
	}
	if excluded {
		// the algebraic laws below are consequences of the same defect here
		return nil
	}
	// 3. antisymmetry
	for i := 0; i < 3; i++ {
		for j := 0; j < 3; j++ {
			if m[i][j] != -m[j][i] {
				return fmt.Errorf("not antisymmetric: Compare(%s,%s)=%d but Compare(%s,%s)=%d", names[i], names[j], m[i][j], names[j], names[i], m[j][i])
			}
		}
	}
	// 4. transitivity and congruence over all orderings
	for i := 0; i < 3; i++ {
		for j := 0; j < 3; j++ {
			for k := 0; k < 3; k++ {
				if m[i][j] <= 0 && m[j][k] <= 0 {
					if m[i][k] > 0 {
						return fmt.Errorf("not transitive: %s<=%s, %s<=%s but Compare(%s,%s)=%d", names[i], names[j], names[j], names[k], names[i], names[k], m[i][k])
					}
					if (m[i][j] < 0 || m[j][k] < 0) && m[i][k] == 0 {
						return fmt.Errorf("not transitive (strict): %s,%s,%s", names[i], names[j], names[k])
					}
				}
				if m[i][j] == 0 && m[i][k] != m[j][k] {
					return fmt.Errorf("equal values not interchangeable: %s==%s but Compare(%s,%s)=%d, Compare(%s,%s)=%d", names[i], names[j], names[i], names[k], m[i][k], names[j], names[k], m[j][k])
				}
			}
		}
	}
	// 5. equal values stay equal (and ordered values keep their order) inside
	// identical document / array contexts
	for i := 0; i < 3; i++ {
		for j := 0; j < 3; j++ {
			wa := bson.A{int32(1), vals[i], "t"}
			wb := bson.A{int32(1), vals[j], "t"}
			r, err := lcmp(wa, wb)
			if err != nil {
				return err
			}
			if r != m[i][j] {
				return fmt.Errorf("array context changes the order of %s,%s: %d vs %d", names[i], names[j], r, m[i][j])
			}
			da := bson.D{{Key: "p", Value: "x"}, {Key: "q", Value: vals[i]}}
			db := bson.D{{Key: "p", Value: "x"}, {Key: "q", Value: vals[j]}}
			r, err = lcmp(da, db)
			if err != nil {
				return err
			}
			if r != m[i][j] {
				return fmt.Errorf("document context changes the order of %s,%s: %d vs %d", names[i], names[j], r, m[i][j])
			}
		}
	}
	return nil
}

var propC12 = Register(&Prop{ID: "C12", Sub: "order", Gen: genC12, Run: runC12})

func TestProp_C12_order(t *testing.T) { propC12.Check(t) }
