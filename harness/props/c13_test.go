package props

import (
	"context"
	"fmt"
	"math"
	"strings"
	"testing"

	"go.mongodb.org/mongo-driver/bson"
	"go.mongodb.org/mongo-driver/mongo"
	"go.mongodb.org/mongo-driver/mongo/options"
	"pgregory.net/rapid"

	"verifharness/gen"
	"verifharness/ref"
)

// C13: sort, skip, limit and distinct through the driver API.

var tinyPool = []interface{}{
	int32(1), float64(1), int64(2), int32(2), int32(3), "x", "y", nil, true,
	bson.A{int32(1), int32(3)}, bson.A{int32(2)}, bson.A{"x", int32(0)}, bson.A{},
	bson.D{{Key: "b", Value: int32(1)}}, bson.D{{Key: "b", Value: int32(2)}, {Key: "c", Value: "x"}},
	bson.A{bson.D{{Key: "b", Value: int32(1)}}, bson.D{{Key: "b", Value: int32(5)}}},
	bson.A{bson.D{{Key: "b", Value: bson.A{int32(3), int32(1)}}}, bson.D{{Key: "b", Value: int32(2)}}}, bson.A{bson.D{{Key: "c", Value: bson.A{"x", "y"}}}, bson.D{{Key: "c", Value: bson.A{"y"}}, {Key: "b", Value: bson.A{}}}},
	gen.D128("1"), gen.D128("2.5"), 2.5,
}

func genSortDoc(t *rapid.T, cfg gen.Cfg, palette []interface{}) bson.D {
	d := bson.D{}
	for _, k := range []string{"a", "b", "c"} {
		switch rapid.IntRange(0, 9).Draw(t, "fk") {
		case 0:
			// missing
		case 1:
			d = append(d, bson.E{Key: k, Value: cfg.Value(2, false).Draw(t, "fv")})
		default:
			d = append(d, bson.E{Key: k, Value: rapid.SampledFrom(palette).Draw(t, "tv")})
		}
	}
	return d
}

var sortPaths = []string{"a", "b", "c", "a", "b", "a.b", "a.c", "_id"}

func genC13(t *rapid.T) bson.D {
	cfg := gen.Core
	n := rapid.IntRange(0, 12).Draw(t, "n")
	if rapid.IntRange(0, 6).Draw(t, "big") == 0 {
		// sort algorithms switch strategy above small sizes
		n = rapid.IntRange(13, 40).Draw(t, "nbig")
	}
	// a per-case palette of 2-5 values keeps ties on the sort keys frequent
	palette := rapid.SliceOfN(rapid.SampledFrom(tinyPool), 2, 5).Draw(t, "palette")
	docs := bson.A{}
	var plain []bson.D
	for i := 0; i < n; i++ {
		d := genSortDoc(t, cfg, palette)
		plain = append(plain, d)
		docs = append(docs, append(bson.D{{Key: "_id", Value: int32(i)}}, d...))
	}
	var filter bson.D
	if rapid.IntRange(0, 9).Draw(t, "ff") < 5 {
		filter = bson.D{}
	} else {
		gen.WithHint(gen.HintOf(plain...), func() { filter = cfg.Filter(1).Draw(t, "filter") })
	}
	ns := rapid.SampledFrom([]int{1, 1, 1, 2, 2, 3}).Draw(t, "ns")
	sortDoc := bson.D{}
	used := map[string]bool{}
	for i := 0; i < ns; i++ {
		p := rapid.SampledFrom(sortPaths).Draw(t, "sp")
		if used[p] {
			continue
		}
		used[p] = true
		sortDoc = append(sortDoc, bson.E{Key: p, Value: rapid.SampledFrom([]interface{}{int32(1), int32(-1), int64(1), float64(-1)}).Draw(t, "sd")})
	}
	skip := int64(rapid.IntRange(0, 6).Draw(t, "skip"))
	limit := int64(rapid.IntRange(0, 6).Draw(t, "limit"))
	// windows far beyond the collection are windows too
	big := []int64{7, 41, 1000, math.MaxInt32, math.MaxInt32 + 1, math.MaxInt64 - 1, math.MaxInt64}
	switch rapid.IntRange(0, 999).Draw(t, "bigwin") % 12 {
	case 5:
		limit = rapid.SampledFrom(big).Draw(t, "biglimit")
	case 6:
		skip = rapid.SampledFrom(big).Draw(t, "bigskip")
	case 7:
		limit = rapid.SampledFrom(big).Draw(t, "biglimit")
		skip = rapid.SampledFrom(big).Draw(t, "bigskip")
	}
	dpath := rapid.SampledFrom([]string{"a", "b", "c", "a.b", "a.c", "_id", "a.0"}).Draw(t, "dpath")
	// the natural order must survive deletions: remove some documents after
	// the inserts (and put one of them back, which moves it to the end)
	deleted := bson.A{}
	if n >= 3 && rapid.IntRange(0, 2).Draw(t, "del") > 0 {
		for i, k := 0, rapid.IntRange(1, 3).Draw(t, "ndel"); i < k; i++ {
			deleted = append(deleted, int32(rapid.IntRange(0, n-1).Draw(t, "delid")))
		}
	}
	reinsert := len(deleted) > 0 && rapid.IntRange(0, 3).Draw(t, "reins") == 0
	return bson.D{{Key: "deleted", Value: deleted}, {Key: "reinsert", Value: reinsert}, {Key: "docs", Value: docs}, {Key: "filter", Value: filter}, {Key: "sort", Value: sortDoc}, {Key: "skip", Value: skip}, {Key: "limit", Value: limit}, {Key: "dpath", Value: dpath}}
}

// refSortKey returns the reference sort key of doc for one sort field or
// ok=false when the order is outside the declared domain (empty array key,
// path crossing an array).
func refSortKey(doc bson.D, path string, reverse bool) (interface{}, bool) {
	comps := strings.Split(path, ".")
	var cur interface{} = doc
	for _, c := range comps {
		switch x := cur.(type) {
		case bson.D:
			found := false
			for _, e := range x {
				if e.Key == c {
					cur = e.Value
					found = true
					break
				}
			}
			if !found {
				return nil, true // missing sorts as null
			}
		case bson.A:
			return nil, false // path crosses an array: outside
		default:
			return nil, true
		}
	}
	if a, ok := cur.(bson.A); ok {
		if len(a) == 0 {
			return nil, false
		}
		best := a[0]
		for _, it := range a[1:] {
			c := ref.Cmp(it, best)
			if (reverse && c > 0) || (!reverse && c < 0) {
				best = it
			}
		}
		if _, nested := best.(bson.A); nested {
			return nil, false
		}
		return best, true
	}
	return cur, true
}

func idsOf(docs []bson.D) []int32 {
	out := make([]int32, len(docs))
	for i, d := range docs {
		out[i], _ = d[0].Value.(int32)
	}
	return out
}

func runC13(c bson.D, x *Ctx) (err error) {
	docs := asA(getD(c, "docs"))
	filter := asD(getD(c, "filter"))
	if filter == nil {
		filter = bson.D{}
	}
	sortDoc := asD(getD(c, "sort"))
	skip := asI(getD(c, "skip"))
	limit := asI(getD(c, "limit"))
	dpath := asS(getD(c, "dpath"))
	defer func() {
		if p := recover(); p != nil {
			err = fmt.Errorf("driver call panicked: %v", p)
		}
	}()
	client, engine, e := newMemEngine()
	if e != nil {
		return fmt.Errorf("harness: %v", e)
	}
	defer engine.Close()
	ctx := context.Background()
	coll := client.Database("db").Collection("c")
	var all []bson.D // natural order
	byID := map[int32]bson.D{}
	for _, d := range docs {
		all = append(all, asD(d))
		id, _ := asD(d)[0].Value.(int32)
		byID[id] = asD(d)
		if _, e := coll.InsertOne(ctx, asD(d)); e != nil {
			return fmt.Errorf("harness: insert failed: %v", e)
		}
	}
	gone := map[int32]bool{}
	for _, dv := range asA(getD(c, "deleted")) {
		id, _ := dv.(int32)
		if gone[id] {
			continue
		}
		r, e := coll.DeleteOne(ctx, bson.D{{Key: "_id", Value: id}})
		if e != nil || r.DeletedCount != 1 {
			return fmt.Errorf("DeleteOne({_id: %d}) = %v, %v", id, r, e)
		}
		gone[id] = true
		for i, d := range all {
			if did, _ := d[0].Value.(int32); did == id {
				all = append(all[:i:i], all[i+1:]...)
				break
			}
		}
		x.Class("setup-with-deletions")
	}
	if asB(getD(c, "reinsert")) {
		for _, dv := range asA(getD(c, "deleted")) {
			id, _ := dv.(int32)
			if _, e := coll.InsertOne(ctx, byID[id]); e != nil {
				return fmt.Errorf("re-inserting the deleted document %d failed: %v", id, e)
			}
			all = append(all, byID[id])
			break
		}
	}
	// F: matching documents in insertion order
	unsorted, ferr := findDocs(coll, filter)
	if ferr != nil {
		x.Class("filter-rejected")
		return nil
	}
	refOK := true
	var F []bson.D
	for _, d := range all {
		m, merr := ref.Match(d, filter)
		if merr != nil {
			refOK = false
			break
		}
		if m {
			F = append(F, d)
		}
	}
	if refOK {
		x.Class("filter-by-reference")
		if fmt.Sprint(idsOf(unsorted)) != fmt.Sprint(idsOf(F)) {
			return fmt.Errorf("Find(filter) returned ids %v, reference selects %v (insertion order)", idsOf(unsorted), idsOf(F))
		}
	} else {
		x.Class("filter-by-lungo")
		F = unsorted
	}
	for i, d := range unsorted {
		// returned documents are the stored ones
		if !bytesEq(d, byID[idsOf(unsorted)[i]]) {
			return fmt.Errorf("Find returned a document that differs from the inserted one: %s", show(d))
		}
	}
	// R: full sorted result
	R, serr := findDocs(coll, filter, options.Find().SetSort(sortDoc))
	if serr != nil {
		return fmt.Errorf("sorted Find failed: %v", serr)
	}
	// (1) permutation of F
	if len(R) != len(F) {
		return fmt.Errorf("sorted Find returned %d documents, unsorted %d", len(R), len(F))
	}
	pos := map[int32]int{}
	for i, id := range idsOf(F) {
		pos[id] = i
	}
	seen := map[int32]bool{}
	for _, id := range idsOf(R) {
		if _, ok := pos[id]; !ok || seen[id] {
			return fmt.Errorf("sorted result %v is not a permutation of the matching documents %v", idsOf(R), idsOf(F))
		}
		seen[id] = true
	}
	// (2) ordered and (3) stable under the reference key order
	orderOK := true
	type key struct{ vals []interface{} }
	keys := make([]key, len(R))
	for i, d := range R {
		for _, s := range sortDoc {
			v, ok := refSortKey(d, s.Key, dirOf(s.Value) < 0)
			if !ok {
				orderOK = false
			}
			keys[i].vals = append(keys[i].vals, v)
		}
	}
	ties := 0
	if orderOK {
		for i := 0; i+1 < len(R); i++ {
			cmp := 0
			for k, s := range sortDoc {
				cmp = ref.Cmp(keys[i].vals[k], keys[i+1].vals[k])
				if dirOf(s.Value) < 0 {
					cmp = -cmp
				}
				if cmp != 0 {
					break
				}
			}
			if cmp > 0 {
				return fmt.Errorf("sorted result decreases at position %d: ids %v under sort %s", i, idsOf(R), show(sortDoc))
			}
			if cmp == 0 {
				ties++
				if pos[idsOf(R)[i]] > pos[idsOf(R)[i+1]] {
					return fmt.Errorf("ties not in insertion order at position %d: ids %v under sort %s", i, idsOf(R), show(sortDoc))
				}
			}
		}
		x.Class("order-checked")
	} else {
		x.Class("order-outside-domain")
	}
	// window
	window := func(list []bson.D) []bson.D {
		if skip > len(list) {
			return nil
		}
		w := list[skip:]
		if limit > 0 && limit < len(w) {
			w = w[:limit]
		}
		return w
	}
	fo := options.Find().SetSort(sortDoc).SetSkip(int64(skip))
	if limit > 0 {
		fo.SetLimit(int64(limit))
	}
	W, werr := findDocs(coll, filter, fo)
	if werr != nil {
		return fmt.Errorf("windowed Find failed: %v", werr)
	}
	if fmt.Sprint(idsOf(W)) != fmt.Sprint(idsOf(window(R))) {
		return fmt.Errorf("Find(sort,skip=%d,limit=%d) returned ids %v, the window of the full ordering %v is %v", skip, limit, idsOf(W), idsOf(R), idsOf(window(R)))
	}
	// unsorted window and count
	fo2 := options.Find().SetSkip(int64(skip))
	co := options.Count().SetSkip(int64(skip))
	if limit > 0 {
		fo2.SetLimit(int64(limit))
		co.SetLimit(int64(limit))
	}
	W2, werr := findDocs(coll, filter, fo2)
	if werr != nil {
		return fmt.Errorf("windowed unsorted Find failed: %v", werr)
	}
	if fmt.Sprint(idsOf(W2)) != fmt.Sprint(idsOf(window(F))) {
		return fmt.Errorf("Find(skip=%d,limit=%d) returned ids %v, want %v", skip, limit, idsOf(W2), idsOf(window(F)))
	}
	cnt, cerr := coll.CountDocuments(ctx, filter, co)
	if cerr != nil || int(cnt) != len(window(F)) {
		return fmt.Errorf("CountDocuments(skip=%d,limit=%d) = %d (%v), want %d", skip, limit, cnt, cerr, len(window(F)))
	}
	// FindOne(sort, skip)
	var one bson.D
	oerr := coll.FindOne(ctx, filter, options.FindOne().SetSort(sortDoc).SetSkip(int64(skip))).Decode(&one)
	if skip < len(R) {
		if oerr != nil || !bytesEq(one, R[skip]) {
			return fmt.Errorf("FindOne(sort, skip=%d) returned %s (%v), want id %d", skip, show(one), oerr, idsOf(R)[skip])
		}
	} else if oerr != mongo.ErrNoDocuments {
		return fmt.Errorf("FindOne beyond the end returned %v", oerr)
	}
	// distinct
	vals, derr := coll.Distinct(ctx, dpath, filter)
	if derr != nil {
		return fmt.Errorf("Distinct failed: %v", derr)
	}
	var expected []interface{}
	nested := false
	for _, d := range F {
		for _, b := range ref.Walk(d, strings.Split(dpath, "."), false) {
			if b.V == ref.Missing {
				continue
			}
			if a, ok := b.V.(bson.A); ok {
				for _, el := range a {
					if _, isA := el.(bson.A); isA {
						nested = true
					}
					expected = append(expected, el)
				}
			} else {
				expected = append(expected, b.V)
			}
		}
	}
	if !nested {
		for i := 0; i+1 < len(vals); i++ {
			if ref.Cmp(vals[i], vals[i+1]) >= 0 {
				return fmt.Errorf("Distinct(%q) not strictly ascending at %d: %s", dpath, i, show(bson.A(vals)))
			}
		}
		for _, ev := range expected {
			found := false
			for _, v := range vals {
				if ref.Cmp(ev, v) == 0 {
					found = true
					break
				}
			}
			if !found {
				return fmt.Errorf("Distinct(%q) misses value %s; got %s", dpath, show(ev), show(bson.A(vals)))
			}
		}
		for _, v := range vals {
			found := false
			for _, ev := range expected {
				if ref.Cmp(ev, v) == 0 {
					found = true
					break
				}
			}
			if !found {
				return fmt.Errorf("Distinct(%q) invented value %s (expected set %s)", dpath, show(v), show(bson.A(expected)))
			}
		}
		if len(expected) > len(vals) && len(vals) > 1 {
			x.Class("distinct-deduplicated")
		}
	}
	// sorted one-document writes act on the first element of the ordering
	if len(R) > 0 {
		var got bson.D
		uerr := coll.FindOneAndUpdate(ctx, filter, bson.D{{Key: "$set", Value: bson.D{{Key: "zz", Value: int32(1)}}}}, options.FindOneAndUpdate().SetSort(sortDoc)).Decode(&got)
		if uerr != nil {
			return fmt.Errorf("FindOneAndUpdate failed: %v", uerr)
		}
		if !bytesEq(got, R[0]) {
			return fmt.Errorf("sorted FindOneAndUpdate acted on id %v, first of the ordering is %d (%v)", got[0].Value, idsOf(R)[0], idsOf(R))
		}
		marked, _ := findDocs(coll, bson.D{{Key: "zz", Value: int32(1)}})
		if len(marked) != 1 || idsOf(marked)[0] != idsOf(R)[0] {
			return fmt.Errorf("sorted FindOneAndUpdate modified ids %v, want only %d", idsOf(marked), idsOf(R)[0])
		}
		if _, e := coll.UpdateMany(ctx, bson.D{}, bson.D{{Key: "$unset", Value: bson.D{{Key: "zz", Value: ""}}}}); e != nil {
			return fmt.Errorf("harness: %v", e)
		}
		// ... FindOneAndReplace (the replacement keeps every field, so the
		// ordering stays what it was)
		var before bson.D
		repl := append(append(bson.D{}, R[0][1:]...), bson.E{Key: "zz", Value: int32(1)})
		rerr := coll.FindOneAndReplace(ctx, filter, repl, options.FindOneAndReplace().SetSort(sortDoc)).Decode(&before)
		if rerr != nil {
			return fmt.Errorf("FindOneAndReplace failed: %v", rerr)
		}
		if !bytesEq(before, R[0]) {
			return fmt.Errorf("sorted FindOneAndReplace acted on id %v, first of the ordering is %d (%v)", before[0].Value, idsOf(R)[0], idsOf(R))
		}
		marked, _ = findDocs(coll, bson.D{{Key: "zz", Value: int32(1)}})
		if len(marked) != 1 || idsOf(marked)[0] != idsOf(R)[0] {
			return fmt.Errorf("sorted FindOneAndReplace replaced ids %v, want only %d", idsOf(marked), idsOf(R)[0])
		}
		if _, e := coll.ReplaceOne(ctx, bson.D{{Key: "_id", Value: R[0][0].Value}}, R[0][1:]); e != nil {
			return fmt.Errorf("harness: %v", e)
		}
		var del bson.D
		derr := coll.FindOneAndDelete(ctx, filter, options.FindOneAndDelete().SetSort(sortDoc)).Decode(&del)
		if derr != nil {
			return fmt.Errorf("FindOneAndDelete failed: %v", derr)
		}
		rest, _ := findDocs(coll, bson.D{})
		if len(rest) != len(all)-1 {
			return fmt.Errorf("sorted FindOneAndDelete removed %d documents", len(all)-len(rest))
		}
		for _, id := range idsOf(rest) {
			if id == idsOf(R)[0] {
				return fmt.Errorf("sorted FindOneAndDelete did not remove the first of the ordering (id %d), remaining %v", idsOf(R)[0], idsOf(rest))
			}
		}
		if del[0].Value != interface{}(idsOf(R)[0]) {
			return fmt.Errorf("sorted FindOneAndDelete returned id %v, want %d", del[0].Value, idsOf(R)[0])
		}
	}
	if len(F) >= 4 && ties >= 1 && orderOK && skip > 0 && skip < len(R) {
		if limit > 0 && skip+limit < len(R) {
			x.Class("window-strictly-inside")
		}
		x.NonTrivial()
	}
	if ties > 0 {
		x.Class("has-ties")
	}
	return nil
}

var propC13 = Register(&Prop{ID: "C13", Sub: "window", Gen: genC13, Run: runC13})

func TestProp_C13_window(t *testing.T) { propC13.Check(t) }
