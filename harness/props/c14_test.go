package props

import (
	"context"
	"fmt"
	"strings"
	"testing"

	"github.com/256dpi/lungo"
	"github.com/256dpi/lungo/mongokit"
	"go.mongodb.org/mongo-driver/bson"
	"go.mongodb.org/mongo-driver/mongo/options"
	"pgregory.net/rapid"

	"verifharness/gen"
	"verifharness/ref"
)

// C14: projections return exactly the requested part, unchanged, and never
// alter the stored document.

func genC14Doc(t *rapid.T, cfg gen.Cfg) bson.D {
	doc := cfg.Doc(3, 4).Draw(t, "doc")
	// field names that are textual prefixes of each other ("a" / "ab",
	// "a.b" / "a.bc") without being parent and child
	if rapid.IntRange(0, 2).Draw(t, "twins") == 0 {
		doc = append(doc, bson.E{Key: "ab", Value: cfg.Value(1, false).Draw(t, "abv")})
		for i := range doc {
			if sub, ok := doc[i].Value.(bson.D); ok && doc[i].Key == "a" {
				doc[i].Value = append(append(bson.D{}, sub...), bson.E{Key: "bc", Value: cfg.Scalar().Draw(t, "bcv")})
			}
		}
	}
	id := rapid.SampledFrom([]interface{}{int32(1), "k", gen.OID1, bson.D{{Key: "x", Value: int32(1)}, {Key: "y", Value: bson.A{int32(1)}}}}).Draw(t, "id")
	return append(bson.D{{Key: "_id", Value: id}}, doc...)
}

func genC14(t *rapid.T) bson.D {
	cfg := gen.Core
	doc := genC14Doc(t, cfg)
	var proj bson.D
	gen.WithHint(gen.HintOf(doc), func() { proj = cfg.Projection().Draw(t, "proj") })
	return bson.D{{Key: "doc", Value: doc}, {Key: "proj", Value: proj}}
}

func lproject(doc *bson.D, proj bson.D) (res bson.D, err error, panicked bool) {
	p := copyD(proj)
	defer func() {
		if r := recover(); r != nil {
			panicked = true
			err = fmt.Errorf("mongokit.Project panicked: %v", r)
		}
	}()
	out, e := mongokit.Project(doc, &p)
	if e != nil {
		return nil, e, false
	}
	return *out, nil, false
}

func projPathsOverlap(proj bson.D) bool {
	for i := range proj {
		for j := range proj {
			if i != j && (proj[i].Key == proj[j].Key || strings.HasPrefix(proj[i].Key, proj[j].Key+".")) {
				return true
			}
		}
	}
	return false
}

func runC14(c bson.D, x *Ctx) error {
	doc := asD(getD(c, "doc"))
	proj := asD(getD(c, "proj"))
	stored := copyD(doc)
	before := marshal(stored)
	got, gerr, panicked := lproject(&stored, proj)
	if panicked {
		return gerr
	}
	overlap := projPathsOverlap(proj)
	if overlap {
		x.Class("overlapping-paths")
	}
	// non-mutation: the stored document is byte-identical afterwards
	if string(marshal(stored)) != string(before) {
		if overlap && x.Known("C14-overlapping-paths-mutate-stored") {
			return nil
		}
		return fmt.Errorf("projecting %s altered the stored document: %s -> %s", show(proj), show(doc), show(stored))
	}
	var gotBytes []byte
	if gerr == nil {
		// (mongokit.Project may share nested values with its input; the driver
		// API decodes results into fresh values, which the driver sub-check
		// verifies by scribbling over them)
		gotBytes = marshal(got)
	}
	// the same projection again gives the same bytes
	got2, gerr2, panicked := lproject(&stored, proj)
	if panicked {
		return gerr2
	}
	// (up to field order: lungo merges operator results from a Go map, the
	// property does not fix the order of the projected fields)
	var gotDoc1 bson.D
	if gerr == nil {
		if err := bson.Unmarshal(gotBytes, &gotDoc1); err != nil {
			return fmt.Errorf("harness: %v", err)
		}
	}
	// overlapping paths (a path collision in MongoDB) are merged in map order
	// by lungo: their result is outside the domain, only non-mutation is claimed
	if !overlap && ((gerr == nil) != (gerr2 == nil) || (gerr == nil && !equalUpToFieldOrder(gotDoc1, roundTrip(got2)))) {
		return fmt.Errorf("projecting %s twice gives different results: %s then %s", show(proj), string(gotBytes), show(got2))
	}
	if string(marshal(stored)) != string(before) {
		return fmt.Errorf("second projection altered the stored document")
	}
	// agreement with the reference
	want, werr := ref.Project(doc, proj)
	switch werr {
	case ref.ErrOutside:
		x.Class("outside-core-domain")
		return nil
	case ref.ErrInvalid:
		x.Class("ref-rejects")
		if gerr == nil {
			return fmt.Errorf("projection %s accepted (result %x) but must be rejected", show(proj), gotBytes)
		}
		x.NonTrivial()
		return nil
	}
	if werr != nil {
		x.Class("outside-core-domain")
		return nil
	}
	if gerr != nil {
		return fmt.Errorf("projection %s rejected (%v), reference result %s", show(proj), gerr, show(want))
	}
	var gotDoc bson.D
	if err := bson.Unmarshal(gotBytes, &gotDoc); err != nil {
		return fmt.Errorf("harness: %v", err)
	}
	if !equalUpToFieldOrder(want, gotDoc) {
		return fmt.Errorf("projection %s of %s gives %s, reference semantics give %s", show(proj), show(doc), show(gotDoc), show(want))
	}
	nested, existing := 0, 0
	for _, e := range proj {
		if strings.Contains(e.Key, ".") {
			nested++
		}
		if ref.GetPath(doc, strings.Split(e.Key, ".")) != ref.Missing {
			existing++
		}
	}
	if len(proj) >= 2 && nested >= 1 && existing >= 1 {
		x.NonTrivial()
	}
	x.Class("agree")
	return nil
}

// roundTrip re-decodes a document through BSON so that Go-level type aliases
// are normalised.
func roundTrip(d bson.D) bson.D {
	var out bson.D
	if err := bson.Unmarshal(marshal(d), &out); err != nil {
		panic(err)
	}
	return out
}

// scribble overwrites every nested container element of a decoded value.
func scribble(v interface{}) {
	switch x := v.(type) {
	case bson.D:
		for i := range x {
			scribble(x[i].Value)
			x[i].Value = "scribbled"
		}
	case bson.A:
		for i := range x {
			scribble(x[i])
			x[i] = "scribbled"
		}
	}
}

var propC14 = Register(&Prop{ID: "C14", Sub: "project", Gen: genC14, Run: runC14})

func TestProp_C14_project(t *testing.T) { propC14.Check(t) }

// ---------------------------------------------------------------- driver level

func genC14Driver(t *rapid.T) bson.D {
	cfg := gen.Wide
	doc := genC14Doc(t, cfg)
	other := append(bson.D{{Key: "_id", Value: int32(99)}}, cfg.Doc(2, 3).Draw(t, "other")...)
	var proj bson.D
	gen.WithHint(gen.HintOf(doc), func() { proj = cfg.Projection().Draw(t, "proj") })
	return bson.D{{Key: "doc", Value: doc}, {Key: "other", Value: other}, {Key: "proj", Value: proj}}
}

func runC14Driver(c bson.D, x *Ctx) (err error) {
	doc := asD(getD(c, "doc"))
	other := asD(getD(c, "other"))
	proj := asD(getD(c, "proj"))
	defer func() {
		if p := recover(); p != nil {
			err = fmt.Errorf("driver call panicked: %v", p)
		}
	}()
	client, engine, e := newMemEngine()
	if e != nil {
		return fmt.Errorf("harness: %v", e)
	}
	defer engine.Close()
	ctx := context.Background()
	coll := client.Database("db").Collection("c")
	if _, e := coll.InsertMany(ctx, []interface{}{doc, other}); e != nil {
		x.Class("insert-rejected")
		return nil
	}
	dump := func() (string, error) {
		docs, e := findDocs(coll, bson.D{})
		if e != nil {
			return "", e
		}
		s := ""
		for _, d := range docs {
			s += string(marshal(d)) + "|"
		}
		return s, nil
	}
	before, e := dump()
	if e != nil {
		return e
	}
	overlap := projPathsOverlap(proj)
	// Find with projection, twice
	r1, e1 := findDocs(coll, bson.D{}, options.Find().SetProjection(proj))
	if overlap {
		// operator results for overlapping paths are merged one after the
		// other: repeat so that an order-dependent outcome, or an
		// order-dependent write into the stored documents, shows reliably
		for i := 0; i < 7; i++ {
			ri, ei := findDocs(coll, bson.D{}, options.Find().SetProjection(proj))
			if (e1 == nil) != (ei == nil) {
				return fmt.Errorf("the same projected Find succeeded once and failed once: %v / %v", e1, ei)
			}
			for k := range ri {
				if ei == nil && k < len(r1) && !equalUpToFieldOrder(r1[k], ri[k]) {
					return fmt.Errorf("the same projected Find returned different results: %s vs %s", show(r1[k]), show(ri[k]))
				}
			}
		}
	}
	mid, e := dump()
	if e != nil {
		return e
	}
	if mid != before {
		if overlap && x.Known("C14-overlapping-paths-mutate-stored") {
			return nil
		}
		return fmt.Errorf("Find with projection %s changed the stored documents", show(proj))
	}
	r2, e2 := findDocs(coll, bson.D{}, options.Find().SetProjection(proj))
	if (e1 == nil) != (e2 == nil) {
		return fmt.Errorf("the same projected Find succeeded once and failed once: %v / %v", e1, e2)
	}
	if e1 != nil {
		x.Class("rejected")
		// a rejected projection rejects a find-and-modify call as a whole:
		// nothing is deleted, updated or replaced, neither by the plain call
		// nor by one inside a session transaction that goes on and commits
		idFilter := bson.D{{Key: "_id", Value: getD(doc, "_id")}}
		calls := []func(c context.Context) error{
			func(c context.Context) error {
				return coll.FindOneAndDelete(c, idFilter, options.FindOneAndDelete().SetProjection(proj)).Err()
			},
			func(c context.Context) error {
				return coll.FindOneAndUpdate(c, idFilter, bson.D{{Key: "$set", Value: bson.D{{Key: "zz", Value: int32(1)}}}}, options.FindOneAndUpdate().SetProjection(proj)).Err()
			},
			func(c context.Context) error {
				return coll.FindOneAndReplace(c, idFilter, bson.D{{Key: "zz", Value: int32(2)}}, options.FindOneAndReplace().SetProjection(proj)).Err()
			},
		}
		names := []string{"FindOneAndDelete", "FindOneAndUpdate", "FindOneAndReplace"}
		if coll.FindOne(ctx, idFilter, options.FindOne().SetProjection(proj)).Err() == nil {
			// the projection fails on the other document only
			return nil
		}
		for k, call := range calls {
			if cerr := call(ctx); cerr == nil {
				return fmt.Errorf("%s accepted the projection %s that Find rejects (%v)", names[k], show(proj), e1)
			}
			sess, serr := client.StartSession()
			if serr != nil {
				return fmt.Errorf("harness: %v", serr)
			}
			_, werr := sess.WithTransaction(ctx, func(sc lungo.ISessionContext) (interface{}, error) {
				if cerr := call(sc); cerr == nil {
					return nil, fmt.Errorf("%s inside a transaction accepted the projection %s that Find rejects", names[k], show(proj))
				}
				return nil, nil
			})
			sess.EndSession(ctx)
			if werr != nil {
				return fmt.Errorf("%v", werr)
			}
			now, e := dump()
			if e != nil {
				return e
			}
			if now != before {
				return fmt.Errorf("%s with the rejected projection %s (plain, then inside a committed session transaction) changed the stored documents", names[k], show(proj))
			}
		}
		x.Class("rejected-projection-find-and-modify")
		return nil
	}
	if len(r1) != 2 || len(r2) != 2 {
		return fmt.Errorf("projected Find returned %d/%d documents", len(r1), len(r2))
	}
	if overlap {
		x.Class("overlapping-paths")
		return nil
	}
	for i := range r1 {
		if !equalUpToFieldOrder(r1[i], r2[i]) {
			return fmt.Errorf("the same projected Find returned different bytes: %s vs %s", show(r1[i]), show(r2[i]))
		}
	}
	// FindOne and FindOneAndUpdate (before image) project identically
	var one bson.D
	if e := coll.FindOne(ctx, bson.D{{Key: "_id", Value: getD(doc, "_id")}}, options.FindOne().SetProjection(proj)).Decode(&one); e != nil {
		return fmt.Errorf("FindOne with an accepted projection failed: %v", e)
	}
	if !equalUpToFieldOrder(one, r1[0]) {
		return fmt.Errorf("FindOne projects differently from Find: %s vs %s", show(one), show(r1[0]))
	}
	// every document of a multi-document Find is projected on its own: the
	// second result equals the single-document projection of that document
	if len(r1) == 2 {
		var oneOther bson.D
		if e := coll.FindOne(ctx, bson.D{{Key: "_id", Value: int32(99)}}, options.FindOne().SetProjection(proj)).Decode(&oneOther); e != nil {
			return fmt.Errorf("FindOne of the second document with an accepted projection failed: %v", e)
		}
		if !equalUpToFieldOrder(oneOther, r1[1]) {
			return fmt.Errorf("the second document of Find with projection %s is %s, projected alone it is %s", show(proj), show(r1[1]), show(oneOther))
		}
	}
	// every leaf of the result is a stored value at the same path (sub-document
	// relation), for projections without $slice / $elemMatch
	plain := true
	for _, pe := range proj {
		if _, isD := pe.Value.(bson.D); isD {
			plain = false
		}
	}
	if plain {
		if msg := subDocOf(r1[0], doc, ""); msg != "" {
			return fmt.Errorf("projection %s returned a value that is not stored: %s (result %s)", show(proj), msg, show(r1[0]))
		}
	}
	// mutate the decoded results, then everything still reads the same
	for _, d := range r1 {
		scribble(d)
	}
	after, e := dump()
	if e != nil {
		return e
	}
	if after != before {
		return fmt.Errorf("mutating decoded projected results changed the stored documents")
	}
	var two bson.D
	if e := coll.FindOneAndUpdate(ctx, bson.D{{Key: "_id", Value: getD(doc, "_id")}}, bson.D{{Key: "$set", Value: bson.D{{Key: "zz", Value: int32(1)}}}}, options.FindOneAndUpdate().SetProjection(proj)).Decode(&two); e != nil {
		return fmt.Errorf("FindOneAndUpdate with an accepted projection failed: %v", e)
	}
	if !equalUpToFieldOrder(two, r2[0]) {
		return fmt.Errorf("FindOneAndUpdate (before image) projects differently from Find: %s vs %s", show(two), show(r2[0]))
	}
	// the after image of a find-and-modify that modifies, and of one that
	// inserts (upsert), is projected like any other result
	var three, four, five bson.D
	if e := coll.FindOneAndUpdate(ctx, bson.D{{Key: "_id", Value: getD(doc, "_id")}}, bson.D{{Key: "$unset", Value: bson.D{{Key: "zz", Value: ""}}}}, options.FindOneAndUpdate().SetProjection(proj).SetReturnDocument(options.After)).Decode(&three); e != nil {
		return fmt.Errorf("FindOneAndUpdate (after image) with an accepted projection failed: %v", e)
	}
	if !equalUpToFieldOrder(three, r2[0]) {
		return fmt.Errorf("FindOneAndUpdate (after image) projects differently from Find: %s vs %s", show(three), show(r2[0]))
	}
	body := bson.D{}
	for _, e := range doc {
		if e.Key != "_id" {
			body = append(body, e)
		}
	}
	if e := coll.FindOneAndReplace(ctx, bson.D{{Key: "_id", Value: "upserted-1"}}, copyD(body), options.FindOneAndReplace().SetProjection(proj).SetUpsert(true).SetReturnDocument(options.After)).Decode(&four); e != nil {
		return fmt.Errorf("FindOneAndReplace (upsert, after image) with an accepted projection failed: %v", e)
	}
	if e := coll.FindOne(ctx, bson.D{{Key: "_id", Value: "upserted-1"}}, options.FindOne().SetProjection(proj)).Decode(&five); e != nil {
		return fmt.Errorf("FindOne of the upserted document failed: %v", e)
	}
	if !equalUpToFieldOrder(four, five) {
		return fmt.Errorf("FindOneAndReplace (upsert, after image) returned %s, FindOne with the same projection returns %s", show(four), show(five))
	}
	var six, seven bson.D
	if e := coll.FindOneAndUpdate(ctx, bson.D{{Key: "_id", Value: "upserted-2"}}, bson.D{{Key: "$set", Value: bson.D{{Key: "a", Value: getD(doc, "a")}, {Key: "b", Value: getD(doc, "b")}}}}, options.FindOneAndUpdate().SetProjection(proj).SetUpsert(true).SetReturnDocument(options.After)).Decode(&six); e != nil {
		return fmt.Errorf("FindOneAndUpdate (upsert, after image) with an accepted projection failed: %v", e)
	}
	if e := coll.FindOne(ctx, bson.D{{Key: "_id", Value: "upserted-2"}}, options.FindOne().SetProjection(proj)).Decode(&seven); e != nil {
		return fmt.Errorf("FindOne of the upserted document failed: %v", e)
	}
	if !equalUpToFieldOrder(six, seven) {
		return fmt.Errorf("FindOneAndUpdate (upsert, after image) returned %s, FindOne with the same projection returns %s", show(six), show(seven))
	}
	x.Class("accepted")
	if len(proj) >= 2 {
		x.NonTrivial()
	}
	return nil
}

// subDocOf checks that every (path, value) leaf of res occurs in doc at the
// same path; array elements are compared positionally.
func subDocOf(res, doc interface{}, path string) string {
	switch r := res.(type) {
	case bson.D:
		d, ok := doc.(bson.D)
		if !ok {
			// projecting through an array of documents is outside the domain
			if _, isA := doc.(bson.A); isA {
				return ""
			}
			return fmt.Sprintf("%s is a document in the result but %T in the store", path, doc)
		}
		for _, e := range r {
			found := false
			for _, f := range d {
				if f.Key == e.Key {
					if msg := subDocOf(e.Value, f.Value, path+"."+e.Key); msg != "" {
						return msg
					}
					found = true
					break
				}
			}
			if !found {
				return fmt.Sprintf("%s.%s does not exist in the stored document", path, e.Key)
			}
		}
		return ""
	case bson.A:
		if _, ok := doc.(bson.A); !ok {
			return fmt.Sprintf("%s is an array in the result only", path)
		}
		if string(marshal(bson.D{{Key: "v", Value: res}})) != string(marshal(bson.D{{Key: "v", Value: doc}})) {
			// arrays may legitimately be reshaped when a path crosses them (outside)
			return ""
		}
		return ""
	}
	if string(marshal(bson.D{{Key: "v", Value: res}})) != string(marshal(bson.D{{Key: "v", Value: doc}})) {
		return fmt.Sprintf("%s = %s differs from the stored value %s", path, show(res), show(doc))
	}
	return ""
}

var propC14Driver = Register(&Prop{ID: "C14", Sub: "driver", Gen: genC14Driver, Run: runC14Driver})

func TestProp_C14_driver(t *testing.T) { propC14Driver.Check(t) }
