package props

import (
	"context"
	"errors"
	"fmt"
	"runtime"
	"strings"
	"sync"
	"sync/atomic"
	"testing"
	"time"

	"github.com/256dpi/lungo"
	"go.mongodb.org/mongo-driver/bson"
	"pgregory.net/rapid"
)

// C16: the engine never wedges. rapid draws 2-4 actor scripts over engine-level
// transactions, shared sessions, driver writes, streams, store failures,
// cancelled contexts, panicking callbacks and Engine.Close, plus a schedule
// perturbation tape for the hook points where the engine has dropped its lock.
// Every blocking call carries a deadline, so a correct engine always lets every
// script finish; the oracle is state based (probe write, closed errors,
// goroutine count), time only bounds it.

var c16Ops = []string{
	"beginCommit", "beginCommit", "beginWriteCommit", "beginWriteCommit", "beginAbort", "commitThenAbort", "doubleCommit", "abortForeign",
	"beginCancelled", "beginTimeout", "insert", "insert", "insertTimeout", "insertFailStore",
	"sessStart", "sessStart", "sessCommit", "sessAbort", "sessEnd", "sessInsert", "withOK", "withError", "withPanic", "withFailStore",
	"watchNextClose", "watchLeave", "watchTryCancelled", "snapshotRead", "closeEngine",
}

func genC16(t *rapid.T) bson.D {
	actors := bson.A{}
	for a, na := 0, rapid.IntRange(2, 4).Draw(t, "actors"); a < na; a++ {
		ops := bson.A{}
		for i, n := 0, rapid.IntRange(2, 10).Draw(t, "nops"); i < n; i++ {
			op := rapid.SampledFrom(c16Ops).Draw(t, "op")
			if op == "closeEngine" && rapid.IntRange(0, 2).Draw(t, "reallyClose") > 0 {
				op = "insert"
			}
			ops = append(ops, bson.D{{Key: "op", Value: op}, {Key: "s", Value: int32(rapid.IntRange(0, 1).Draw(t, "sess"))}})
		}
		actors = append(actors, ops)
	}
	tape := bson.A{}
	for i, m := 0, rapid.IntRange(0, 150).Draw(t, "tapelen"); i < m; i++ {
		tape = append(tape, int32(rapid.SampledFrom([]int{0, 0, 1, 2, 2, 3, 3}).Draw(t, "tape")))
	}
	return bson.D{{Key: "actors", Value: actors}, {Key: "tape", Value: tape}, {Key: "procs", Value: int32(rapid.SampledFrom([]int{2, 4, 16}).Draw(t, "procs"))}, {Key: "finale", Value: int32(rapid.IntRange(0, 3).Draw(t, "finale"))}}
}

type c16Env struct {
	client   lungo.IClient
	engine   *lungo.Engine
	store    *faultyStoreMT
	sessions []lungo.ISession
	live     int64 // write transactions the harness knows to be held
	maxLive  int64
	closed   int32
	viol     atomic.Value
	seq      int64
}

type faultyStoreMT struct {
	mu       sync.Mutex
	inner    lungo.Store
	failNext bool
	slowNext time.Duration // the next Store call takes this long (the commit holds the engine lock meanwhile)
}

func (f *faultyStoreMT) Load() (*lungo.Catalog, error) { return f.inner.Load() }
func (f *faultyStoreMT) Store(c *lungo.Catalog) error {
	f.mu.Lock()
	fail := f.failNext
	f.failNext = false
	slow := f.slowNext
	f.slowNext = 0
	f.mu.Unlock()
	if slow > 0 {
		time.Sleep(slow)
	}
	if fail {
		return errors.New("injected store failure")
	}
	return f.inner.Store(c)
}
func (f *faultyStoreMT) arm() { f.mu.Lock(); f.failNext = true; f.mu.Unlock() }

func (e *c16Env) violate(format string, args ...interface{}) {
	if e.viol.Load() == nil {
		e.viol.Store(fmt.Sprintf(format, args...))
	}
}

func (e *c16Env) hold() {
	n := atomic.AddInt64(&e.live, 1)
	if n > 1 {
		e.violate("%d write transactions are held at the same time", n)
	}
}
func (e *c16Env) release() { atomic.AddInt64(&e.live, -1) }

func okErr(err error) bool { return err == nil }

func (e *c16Env) isClosed() bool { return atomic.LoadInt32(&e.closed) == 1 }

// after the engine was closed every error must be the closed error (or a
// context error of the caller's own deadline)
func (e *c16Env) checkErr(what string, err error, closedBefore bool) {
	if err == nil || !closedBefore {
		return
	}
	if !errors.Is(err, lungo.ErrEngineClosed) && !strings.Contains(err.Error(), "engine closed") && !errors.Is(err, context.DeadlineExceeded) && !errors.Is(err, context.Canceled) && !errors.Is(err, lungo.ErrSessionEnded) && !strings.Contains(err.Error(), "transaction") {
		e.violate("%s after Engine.Close returned %q instead of the closed error", what, err.Error())
	}
}

func (e *c16Env) runOp(actor int, op string, s int) {
	defer func() {
		if p := recover(); p != nil {
			msg := fmt.Sprint(p)
			if msg == "callback panic" {
				return
			}
			e.violate("actor %d: %s panicked: %v", actor, op, p)
		}
	}()
	ctx := context.Background()
	short := func() (context.Context, context.CancelFunc) { return context.WithTimeout(ctx, 30*time.Millisecond) }
	coll := e.client.Database("d").Collection("c")
	id := atomic.AddInt64(&e.seq, 1)
	closedBefore := e.isClosed()
	switch op {
	case "beginCommit", "beginWriteCommit", "beginAbort", "commitThenAbort", "doubleCommit":
		c2, cancel := context.WithTimeout(ctx, 2*time.Second)
		txn, err := e.engine.Begin(c2, true)
		cancel()
		e.checkErr("Begin", err, closedBefore)
		if err != nil {
			return
		}
		e.hold()
		if op == "beginWriteCommit" {
			d := bson.D{{Key: "_id", Value: id}}
			_, _ = txn.Insert(lungo.Handle{"d", "c"}, []*bson.D{&d}, true)
		}
		switch op {
		case "beginAbort":
			e.release()
			e.engine.Abort(txn)
		case "commitThenAbort":
			e.release()
			_ = e.engine.Commit(txn)
			e.engine.Abort(txn)
		case "doubleCommit":
			e.release()
			_ = e.engine.Commit(txn)
			if err := e.engine.Commit(txn); err == nil && !e.isClosed() {
				e.violate("a second Commit of the same transaction succeeded")
			}
		default:
			e.release()
			_ = e.engine.Commit(txn)
		}
	case "abortForeign":
		// aborting / committing a transaction the engine does not know
		foreign := lungo.NewTransaction(e.engine.Catalog())
		e.engine.Abort(foreign)
		if err := e.engine.Commit(foreign); err == nil {
			e.violate("Commit of a foreign transaction succeeded")
		}
	case "beginCancelled":
		c2, cancel := context.WithCancel(ctx)
		cancel()
		txn, err := e.engine.Begin(c2, true)
		if err == nil {
			// the slot was free: the transaction is valid and must be released
			e.hold()
			e.release()
			e.engine.Abort(txn)
		}
	case "beginTimeout":
		c2, cancel := short()
		txn, err := e.engine.Begin(c2, true)
		cancel()
		if err == nil {
			e.hold()
			e.release()
			e.engine.Abort(txn)
		}
	case "insert":
		c2, cancel := context.WithTimeout(ctx, 2*time.Second)
		_, err := coll.InsertOne(c2, bson.D{{Key: "_id", Value: id}})
		cancel()
		e.checkErr("InsertOne", err, closedBefore)
	case "insertTimeout":
		c2, cancel := short()
		_, _ = coll.InsertOne(c2, bson.D{{Key: "_id", Value: id}})
		cancel()
	case "insertFailStore":
		e.store.arm()
		c2, cancel := context.WithTimeout(ctx, 2*time.Second)
		_, _ = coll.InsertOne(c2, bson.D{{Key: "_id", Value: id}})
		cancel()
	case "sessStart":
		_ = e.sessions[s].StartTransaction()
	case "sessCommit":
		_ = e.sessions[s].CommitTransaction(ctx)
	case "sessAbort":
		_ = e.sessions[s].AbortTransaction(ctx)
	case "sessEnd":
		e.sessions[s].EndSession(ctx)
	case "sessInsert":
		_ = lungo.WithSession(ctx, e.sessions[s], func(sc lungo.ISessionContext) error {
			c2, cancel := context.WithTimeout(sc, 30*time.Millisecond)
			defer cancel()
			_, err := coll.InsertOne(c2, bson.D{{Key: "_id", Value: id}})
			return err
		})
	case "withOK", "withError", "withPanic", "withFailStore":
		sess, err := e.client.StartSession()
		if err != nil {
			return
		}
		if op == "withFailStore" {
			e.store.arm()
		}
		c2, cancel := context.WithTimeout(ctx, 2*time.Second)
		defer cancel()
		_, _ = sess.WithTransaction(c2, func(sc lungo.ISessionContext) (interface{}, error) {
			e.hold()
			defer e.release()
			if _, err := coll.InsertOne(sc, bson.D{{Key: "_id", Value: id}}); err != nil {
				return nil, err
			}
			switch op {
			case "withError":
				return nil, errors.New("callback error")
			case "withPanic":
				panic("callback panic")
			}
			return nil, nil
		})
		sess.EndSession(ctx)
	case "watchNextClose", "watchLeave":
		st, err := coll.Watch(ctx, bson.A{})
		e.checkErr("Watch", err, closedBefore)
		if err != nil {
			return
		}
		c2, cancel := short()
		st.Next(c2)
		cancel()
		if op == "watchNextClose" {
			_ = st.Close(ctx)
		}
	case "watchTryCancelled":
		// a non-blocking poll with a context that is already cancelled leaves
		// the stream usable: it can still be asked for its error and closed
		st, err := coll.Watch(ctx, bson.A{})
		e.checkErr("Watch", err, closedBefore)
		if err != nil {
			return
		}
		cctx, ccancel := context.WithCancel(ctx)
		ccancel()
		st.TryNext(cctx)
		fin := make(chan struct{})
		go func() {
			_ = st.Err()
			_ = st.Close(context.Background())
			close(fin)
		}()
		select {
		case <-fin:
		case <-time.After(tLive):
			e.violate("actor %d: after TryNext with a cancelled context Stream.Err / Stream.Close did not return within %v\n%s", actor, tLive, goroutineDump())
		}
	case "snapshotRead":
		txn, err := e.engine.Begin(ctx, false)
		e.checkErr("Begin(read)", err, closedBefore)
		if err == nil {
			_, _ = txn.Find(lungo.Handle{"d", "c"}, &bson.D{}, nil, 0, 0)
		}
	case "closeEngine":
		done := make(chan struct{})
		go func() { e.engine.Close(); close(done) }()
		select {
		case <-done:
			atomic.StoreInt32(&e.closed, 1)
		case <-time.After(tLive):
			e.violate("Engine.Close did not return within %v", tLive)
		}
	}
}

func goroutineDump() string {
	buf := make([]byte, 1<<20)
	n := runtime.Stack(buf, true)
	s := string(buf[:n])
	// keep only goroutines inside lungo
	var keep []string
	for _, g := range strings.Split(s, "\n\n") {
		if strings.Contains(g, "256dpi/lungo") && !strings.Contains(g, "goroutineDump") {
			lines := strings.Split(g, "\n")
			if len(lines) > 12 {
				lines = lines[:12]
			}
			keep = append(keep, strings.Join(lines, "\n"))
		}
	}
	if len(keep) > 6 {
		keep = keep[:6]
	}
	return strings.Join(keep, "\n\n")
}

// c16CancelledFinish: a session transaction that is finished with a context
// that was cancelled while it ran is finished all the same (the session stays
// open): the next write of another client proceeds.
func c16CancelledFinish(client lungo.IClient) error {
	coll := client.Database("probe").Collection("cc")
	for variant := 0; variant < 3; variant++ {
		sess, err := client.StartSession()
		if err != nil {
			return fmt.Errorf("StartSession failed: %v", err)
		}
		cctx, ccancel := context.WithCancel(context.Background())
		what := ""
		switch variant {
		case 0, 1:
			what = "WithTransaction whose context is cancelled inside the callback (callback returns nil)"
			if variant == 1 {
				what = "WithTransaction whose context is cancelled inside the callback (callback returns the context error)"
			}
			_, _ = sess.WithTransaction(cctx, func(sc lungo.ISessionContext) (interface{}, error) {
				_, _ = coll.InsertOne(sc, bson.D{{Key: "v", Value: int32(variant)}})
				ccancel()
				if variant == 1 {
					return nil, cctx.Err()
				}
				return nil, nil
			})
		case 2:
			what = "AbortTransaction with a cancelled context"
			if err := sess.StartTransaction(); err != nil {
				return fmt.Errorf("StartTransaction failed: %v", err)
			}
			_ = lungo.WithSession(cctx, sess, func(sc lungo.ISessionContext) error {
				_, _ = coll.InsertOne(sc, bson.D{{Key: "v", Value: int32(variant)}})
				return nil
			})
			ccancel()
			_ = sess.AbortTransaction(cctx)
		}
		ccancel()
		pctx, pcancel := context.WithTimeout(context.Background(), 3*time.Second)
		t0 := time.Now()
		_, perr := client.Database("probe").Collection("p2").InsertOne(pctx, bson.D{{Key: "v", Value: int32(variant)}})
		pcancel()
		sess.EndSession(context.Background())
		if perr != nil {
			return fmt.Errorf("wedged: after %s the writer slot was not released: the next write failed after %v: %v\n%s", what, time.Since(t0).Round(time.Millisecond), perr, goroutineDump())
		}
	}
	return nil
}

// c16ParkedNext: a blocking Next that has found no event and is about to
// wait (it has released the stream's lock) is woken by a Close, and by a
// commit, that happen exactly then.
func c16ParkedNext(client lungo.IClient) error {
	coll := client.Database("probe").Collection("pn")
	for variant := 0; variant < 2; variant++ {
		st, err := coll.Watch(context.Background(), bson.A{})
		if err != nil {
			return fmt.Errorf("Watch failed: %v", err)
		}
		parked := make(chan struct{})
		resume := make(chan struct{})
		var once sync.Once
		hk := func(point string) {
			if point == "stream.beforeWait" {
				once.Do(func() {
					close(parked)
					<-resume
				})
			}
		}
		lungo.VerifHook.Store(&hk)
		nctx, ncancel := context.WithTimeout(context.Background(), 60*time.Second)
		got := make(chan bool, 1)
		go func() { got <- st.Next(nctx) }()
		fail := func(format string, a ...interface{}) error {
			lungo.VerifHook.Store(nil)
			dump := goroutineDump()
			ncancel()
			_ = st.Close(context.Background())
			return fmt.Errorf(format+"\n%s", append(a, dump)...)
		}
		select {
		case <-parked:
		case <-time.After(tLive):
			close(resume)
			return fail("wedged: a blocking Next on an idle stream did not reach its wait within %v", tLive)
		}
		acted := make(chan error, 1)
		go func() {
			if variant == 0 {
				acted <- st.Close(context.Background())
				return
			}
			ictx, icancel := context.WithTimeout(context.Background(), 3*time.Second)
			defer icancel()
			_, ierr := coll.InsertOne(ictx, bson.D{{Key: "v", Value: int32(variant)}})
			acted <- ierr
		}()
		select {
		case aerr := <-acted:
			if aerr != nil {
				close(resume)
				return fail("while a Next was about to wait, the concurrent call failed: %v", aerr)
			}
		case <-time.After(tLive):
			close(resume)
			return fail("wedged: a call concurrent with a Next that is about to wait did not return within %v", tLive)
		}
		close(resume)
		lungo.VerifHook.Store(nil)
		select {
		case ok := <-got:
			if variant == 0 && ok {
				ncancel()
				return fmt.Errorf("Next returned an event after the stream was closed")
			}
			if variant == 1 && !ok {
				ncancel()
				_ = st.Close(context.Background())
				return fmt.Errorf("Next returned false (%v) although an event was committed while it was about to wait", st.Err())
			}
		case <-time.After(tLive):
			if variant == 0 {
				return fail("wedged (lost wake-up): Stream.Close ran while a blocking Next was about to wait; Next is still blocked after %v", tLive)
			}
			return fail("wedged (lost wake-up): an event was committed while a blocking Next was about to wait; Next is still blocked after %v", tLive)
		}
		ncancel()
		_ = st.Close(context.Background())
	}
	return nil
}

func runC16Once(c bson.D, x *Ctx) error {
	old := runtime.GOMAXPROCS(asI(getD(c, "procs")))
	defer runtime.GOMAXPROCS(old)
	time.Sleep(0)
	baseline := runtime.NumGoroutine()
	st := &faultyStoreMT{inner: lungo.NewMemoryStore()}
	client, engine, err := lungo.Open(context.Background(), lungo.Options{Store: st, ExpireInterval: 24 * time.Hour})
	if err != nil {
		return fmt.Errorf("harness: %v", err)
	}
	e := &c16Env{client: client, engine: engine, store: st}
	for i := 0; i < 2; i++ {
		s, _ := client.StartSession()
		e.sessions = append(e.sessions, s)
	}
	var tape []int
	for _, v := range asA(getD(c, "tape")) {
		tape = append(tape, asI(v))
	}
	var tpos int64
	hook := func(point string) {
		if point == "close.unlocked" {
			// shutdown happens at most once per case: always hold the window
			// between Close dropping the engine lock and the rest of the
			// shutdown open for the other actors
			time.Sleep(3 * time.Millisecond)
			return
		}
		i := atomic.AddInt64(&tpos, 1) - 1
		if int(i) >= len(tape) {
			return
		}
		switch tape[i] {
		case 1:
			runtime.Gosched()
		case 2:
			time.Sleep(100 * time.Microsecond)
		case 3:
			time.Sleep(2 * time.Millisecond)
		}
	}
	lungo.VerifHook.Store(&hook)
	defer lungo.VerifHook.Store(nil)
	var wg sync.WaitGroup
	faults := 0
	for a, av := range asA(getD(c, "actors")) {
		wg.Add(1)
		go func(a int, ops bson.A) {
			defer wg.Done()
			for _, ov := range ops {
				e.runOp(a, asS(getD(asD(ov), "op")), asI(getD(asD(ov), "s")))
			}
		}(a, asA(av))
		for _, ov := range asA(av) {
			switch asS(getD(asD(ov), "op")) {
			case "insertFailStore", "withFailStore", "withPanic", "withError", "beginCancelled", "beginTimeout", "sessEnd", "closeEngine":
				faults++
			}
		}
	}
	done := make(chan struct{})
	go func() { wg.Wait(); close(done) }()
	// a janitor client aborts transactions left open on the shared sessions
	// (StartTransaction takes no context: without it a script that forgets a
	// transaction would make the others wait for the 1 min acquisition timeout)
	go func() {
		for {
			select {
			case <-done:
				return
			case <-time.After(25 * time.Millisecond):
				for _, s := range e.sessions {
					_ = s.AbortTransaction(context.Background())
				}
			}
		}
	}()
	select {
	case <-done:
	case <-time.After(90 * time.Second):
		return fmt.Errorf("wedged: the actors did not finish within 90 s although every blocking call carries a deadline\n%s", goroutineDump())
	}
	lungo.VerifHook.Store(nil)
	if v := e.viol.Load(); v != nil {
		return fmt.Errorf("%v", v)
	}
	// release whatever the shared sessions still hold (a started transaction
	// that nobody committed is the scripts' doing, not the engine's)
	for _, s := range e.sessions {
		s.EndSession(context.Background())
	}
	if !e.isClosed() {
		// the writer slot must be free: a probe write proceeds immediately
		ctx, cancel := context.WithTimeout(context.Background(), 3*time.Second)
		t0 := time.Now()
		_, err := client.Database("probe").Collection("p").InsertOne(ctx, bson.D{{Key: "_id", Value: "probe"}})
		cancel()
		if err != nil {
			return fmt.Errorf("wedged: after all scripts finished (every transaction committed, aborted or its session ended) a probe write failed after %v: %v\n%s", time.Since(t0).Round(time.Millisecond), err, goroutineDump())
		}
		if err := c16CancelledFinish(client); err != nil {
			return err
		}
		if err := c16ParkedNext(client); err != nil {
			return err
		}
		switch asI(getD(c, "finale")) {
		case 1:
			// a stream is closed by its owner while the engine shuts down,
			// both queued behind a commit that holds the engine lock
			st, werr := client.Database("probe").Collection("p").Watch(context.Background(), bson.A{})
			if werr != nil {
				return fmt.Errorf("Watch before shutdown failed: %v", werr)
			}
			e.store.mu.Lock()
			e.store.slowNext = 30 * time.Millisecond
			e.store.mu.Unlock()
			var rg sync.WaitGroup
			panics := make(chan string, 3)
			guard := func(name string, f func()) {
				rg.Add(1)
				go func() {
					defer rg.Done()
					defer func() {
						if p := recover(); p != nil {
							panics <- fmt.Sprintf("%s panicked: %v", name, p)
						}
					}()
					f()
				}()
			}
			guard("InsertOne", func() {
				cx, cancel := context.WithTimeout(context.Background(), 3*time.Second)
				defer cancel()
				_, _ = client.Database("probe").Collection("p").InsertOne(cx, bson.D{{Key: "_id", Value: "slow"}})
			})
			time.Sleep(8 * time.Millisecond)
			guard("Engine.Close", func() { engine.Close() })
			time.Sleep(time.Millisecond)
			guard("Stream.Close", func() { _ = st.Close(context.Background()) })
			rdone := make(chan struct{})
			go func() { rg.Wait(); close(rdone) }()
			select {
			case <-rdone:
			case <-time.After(tLive):
				return fmt.Errorf("a commit, Engine.Close and Stream.Close issued together did not all return within %v\n%s", tLive, goroutineDump())
			}
			select {
			case p := <-panics:
				return fmt.Errorf("closing a stream while the engine shuts down: %s", p)
			default:
			}
			atomic.StoreInt32(&e.closed, 1)
		case 2:
			// a Begin(lock) that already holds the writer token when the
			// engine shuts down completely must still report the closed engine
			parked := make(chan struct{})
			resume := make(chan struct{})
			var once sync.Once
			hk := func(point string) {
				if point == "begin.acquired" {
					once.Do(func() {
						close(parked)
						<-resume
					})
				}
			}
			lungo.VerifHook.Store(&hk)
			type bres struct {
				txn *lungo.Transaction
				err error
			}
			bch := make(chan bres, 1)
			go func() {
				cx, cancel := context.WithTimeout(context.Background(), 30*time.Second)
				defer cancel()
				txn, err := engine.Begin(cx, true)
				bch <- bres{txn, err}
			}()
			select {
			case <-parked:
			case <-time.After(tLive):
				lungo.VerifHook.Store(nil)
				return fmt.Errorf("wedged: Begin(lock) on an idle engine did not acquire the writer slot within %v\n%s", tLive, goroutineDump())
			}
			cdone := make(chan struct{})
			go func() { engine.Close(); close(cdone) }()
			select {
			case <-cdone:
			case <-time.After(tLive):
				close(resume)
				lungo.VerifHook.Store(nil)
				return fmt.Errorf("Engine.Close did not return within %v while a Begin held the writer token\n%s", tLive, goroutineDump())
			}
			close(resume)
			select {
			case b := <-bch:
				lungo.VerifHook.Store(nil)
				if b.err == nil {
					engine.Abort(b.txn)
					return fmt.Errorf("Begin(lock) returned a write transaction after Engine.Close had returned (it held the writer token when the engine shut down)")
				}
			case <-time.After(tLive):
				lungo.VerifHook.Store(nil)
				return fmt.Errorf("Begin(lock) did not return within %v after Engine.Close\n%s", tLive, goroutineDump())
			}
			atomic.StoreInt32(&e.closed, 1)
		case 3:
			// Engine.Close is held where it has released the engine lock and
			// not yet closed the streams: from then on the engine is closed
			// for everybody - a Watch is refused or its stream ends with the
			// shutdown, a write is refused or completes without a panic
			st0, werr := client.Database("probe").Collection("p").Watch(context.Background(), bson.A{})
			if werr != nil {
				return fmt.Errorf("Watch before shutdown failed: %v", werr)
			}
			parked := make(chan struct{})
			resume := make(chan struct{})
			var once sync.Once
			hk := func(point string) {
				if point == "close.unlocked" {
					once.Do(func() {
						close(parked)
						<-resume
					})
				}
			}
			lungo.VerifHook.Store(&hk)
			cdone := make(chan struct{})
			go func() { engine.Close(); close(cdone) }()
			select {
			case <-parked:
			case <-time.After(tLive):
				close(resume)
				lungo.VerifHook.Store(nil)
				return fmt.Errorf("Engine.Close did not release the engine lock within %v\n%s", tLive, goroutineDump())
			}
			late, lerr := client.Database("probe").Collection("p").Watch(context.Background(), bson.A{})
			var ipanic interface{}
			func() {
				defer func() { ipanic = recover() }()
				ictx, icancel := context.WithTimeout(context.Background(), 3*time.Second)
				defer icancel()
				_, _ = client.Database("probe").Collection("p").InsertOne(ictx, bson.D{{Key: "_id", Value: "during-close"}})
			}()
			close(resume)
			select {
			case <-cdone:
			case <-time.After(tLive):
				lungo.VerifHook.Store(nil)
				return fmt.Errorf("Engine.Close did not return within %v\n%s", tLive, goroutineDump())
			}
			lungo.VerifHook.Store(nil)
			if ipanic != nil {
				return fmt.Errorf("a write issued while the engine was shutting down panicked: %v", ipanic)
			}
			for name, sx := range map[string]lungo.IChangeStream{"opened before the shutdown": st0, "opened while the engine was shutting down": late} {
				if sx == nil {
					continue
				}
				sx := sx
				// events committed during the window may still be delivered;
				// then the stream ends
				for round := 0; round < 4; round++ {
					ended := make(chan bool, 1)
					nctx, ncancel := context.WithTimeout(context.Background(), 60*time.Second)
					go func() { ended <- sx.Next(nctx) }()
					more := false
					select {
					case more = <-ended:
						ncancel()
					case <-time.After(tLive):
						ncancel()
						return fmt.Errorf("a stream %s (Watch error: %v) is still blocked in Next %v after Engine.Close returned: the shutdown never ended it\n%s", name, lerr, tLive, goroutineDump())
					}
					if !more {
						break
					}
				}
			}
			atomic.StoreInt32(&e.closed, 1)
		}
	}
	if !e.isClosed() {
		// aborting a transaction that has already been committed (every write
		// helper does so in a defer) is a no-op, also when another writer
		// holds the slot by then
		sctx, scancel := context.WithTimeout(context.Background(), 3*time.Second)
		t1, serr := engine.Begin(sctx, true)
		scancel()
		if serr != nil {
			return fmt.Errorf("wedged: Begin(lock) after the probe write failed: %v\n%s", serr, goroutineDump())
		}
		if cerr := t1.Create(lungo.Handle{"probe", fmt.Sprintf("q%d", time.Now().UnixNano())}); cerr != nil {
			return fmt.Errorf("harness: %v", cerr)
		}
		if cerr := engine.Commit(t1); cerr != nil {
			return fmt.Errorf("Commit of a collection creation failed: %v", cerr)
		}
		sctx, scancel = context.WithTimeout(context.Background(), 3*time.Second)
		t2, serr := engine.Begin(sctx, true)
		scancel()
		if serr != nil {
			return fmt.Errorf("wedged: Begin(lock) after a commit failed: %v\n%s", serr, goroutineDump())
		}
		engine.Abort(t1) // stale
		sctx, scancel = context.WithTimeout(context.Background(), 40*time.Millisecond)
		t3, serr := engine.Begin(sctx, true)
		scancel()
		if serr == nil {
			engine.Abort(t3)
			return fmt.Errorf("aborting an already committed transaction released the writer slot held by another transaction: a second write transaction started")
		}
		engine.Abort(t2)
		// shutdown completes, and it releases a writer that is waiting for
		// the slot with a context of its own (cancelable, far deadline)
		hctx, hcancel := context.WithTimeout(context.Background(), 3*time.Second)
		held, herr := engine.Begin(hctx, true)
		hcancel()
		if herr != nil {
			return fmt.Errorf("wedged: Begin(lock) after the probe write failed: %v\n%s", herr, goroutineDump())
		}
		waiter := make(chan error, 1)
		go func() {
			wctx, wcancel := context.WithTimeout(context.Background(), 60*time.Second)
			defer wcancel()
			txn, err := engine.Begin(wctx, true)
			if err == nil {
				engine.Abort(txn)
			}
			waiter <- err
		}()
		time.Sleep(20 * time.Millisecond)
		cdone := make(chan struct{})
		go func() { engine.Close(); close(cdone) }()
		select {
		case <-cdone:
		case <-time.After(tLive):
			return fmt.Errorf("Engine.Close did not return within %v\n%s", tLive, goroutineDump())
		}
		select {
		case werr := <-waiter:
			if !errors.Is(werr, lungo.ErrEngineClosed) {
				return fmt.Errorf("a Begin(lock) that was waiting for the writer slot when the engine shut down returned %v, want the closed error", werr)
			}
		case <-time.After(3 * time.Second):
			return fmt.Errorf("a Begin(lock) that was waiting for the writer slot (context with a 60 s deadline) is still blocked 3 s after Engine.Close returned\n%s", goroutineDump())
		}
		engine.Abort(held)
	}
	// after shutdown: closed errors, promptly
	t0 := time.Now()
	if _, err := engine.Begin(context.Background(), true); !errors.Is(err, lungo.ErrEngineClosed) {
		return fmt.Errorf("Begin(lock) after Close returned %v", err)
	}
	if _, err := engine.Begin(context.Background(), false); !errors.Is(err, lungo.ErrEngineClosed) {
		return fmt.Errorf("Begin(read) after Close returned %v", err)
	}
	if _, err := client.Database("d").Collection("c").InsertOne(context.Background(), bson.D{{Key: "x", Value: 1}}); !errors.Is(err, lungo.ErrEngineClosed) {
		return fmt.Errorf("InsertOne after Close returned %v", err)
	}
	if _, err := client.Database("d").Collection("c").Watch(context.Background(), bson.A{}); !errors.Is(err, lungo.ErrEngineClosed) {
		return fmt.Errorf("Watch after Close returned %v", err)
	}
	if err := engine.Commit(lungo.NewTransaction(lungo.NewCatalog())); err == nil {
		return fmt.Errorf("Commit after Close succeeded")
	}
	engine.Abort(lungo.NewTransaction(lungo.NewCatalog()))
	engine.Close()
	if d := time.Since(t0); d > 2*time.Second {
		return fmt.Errorf("calls after Close took %v", d)
	}
	// all background work has stopped
	deadline := time.Now().Add(3 * time.Second)
	for runtime.NumGoroutine() > baseline && time.Now().Before(deadline) {
		time.Sleep(2 * time.Millisecond)
	}
	if n := runtime.NumGoroutine(); n > baseline {
		if dump := goroutineDump(); dump != "" {
			return fmt.Errorf("%d goroutine(s) inside lungo are still alive after Close:\n%s", n-baseline, dump)
		}
	}
	if faults > 0 {
		x.Class("scripts-with-faults")
		x.NonTrivial()
	}
	return nil
}

var propC16 = Register(&Prop{ID: "C16", Sub: "wedge", Gen: genC16, Run: func(c bson.D, x *Ctx) error {
	n := 1
	if x.NoExclude {
		n = 20
	}
	for i := 0; i < n; i++ {
		if err := runC16Once(c, x); err != nil {
			return err
		}
	}
	return nil
}})

func TestProp_C16_wedge(t *testing.T) { propC16.Check(t) }
