package props

import (
	"bytes"
	"context"
	"fmt"
	"io"
	"strings"
	"testing"

	"github.com/256dpi/lungo"
	"go.mongodb.org/mongo-driver/bson"
	"go.mongodb.org/mongo-driver/mongo/options"
	"pgregory.net/rapid"
)

// C18: GridFS returns the bytes that were uploaded, at any offset. The upload
// buffer (16 MiB in production) is shrunk through the verif hook so that the
// buffer carry-over arithmetic is exercised by small cases.

func contentOf(seed, n int) []byte {
	out := make([]byte, n)
	x := uint32(seed)*2654435761 + 12345
	for i := range out {
		x ^= x << 13
		x ^= x >> 17
		x ^= x << 5
		out[i] = byte(x >> 11)
	}
	return out
}

func genC18(t *rapid.T) bson.D {
	c := rapid.IntRange(1, 9).Draw(t, "chunk")
	// lengths around multiples of the chunk size and of the buffer
	b := c * rapid.IntRange(1, 8).Draw(t, "bufmul")
	if rapid.Bool().Draw(t, "oddbuf") {
		b += rapid.IntRange(0, c-1+1).Draw(t, "bufextra")
	}
	var L int
	switch rapid.IntRange(0, 5).Draw(t, "lk") {
	case 0:
		L = rapid.SampledFrom([]int{0, 1, c - 1, c, c + 1, 2 * c, 2*c + 1}).Draw(t, "lsmall")
	case 1:
		L = b*rapid.IntRange(1, 3).Draw(t, "lbm") + rapid.IntRange(-2, 2).Draw(t, "lbd")
	case 2:
		L = c*rapid.IntRange(0, 12).Draw(t, "lcm") + rapid.IntRange(-1, 1).Draw(t, "lcd")
	default:
		L = rapid.IntRange(0, 90).Draw(t, "lany")
	}
	if L < 0 {
		L = 0
	}
	// write partition
	writes := bson.A{}
	rest := L
	for rest > 0 {
		n := rapid.IntRange(0, min(rest, 3*c+2)).Draw(t, "w")
		if rapid.IntRange(0, 5).Draw(t, "big") == 0 {
			n = rapid.IntRange(0, rest).Draw(t, "wbig")
		}
		writes = append(writes, int32(n))
		rest -= n
	}
	if rapid.Bool().Draw(t, "zerowrite") {
		writes = append(writes, int32(0))
	}
	life := rapid.SampledFrom([]string{"plain", "plain", "tracked", "tracked", "abort", "delete", "trackedDelete", "trackedDelete2", "trackedDeleteUnclaimed", "stream", "streamFail", "streamFailTracked"}).Draw(t, "life")
	// the bucket's default chunk size; when it differs from the upload's the
	// upload overrides it with its own option
	bucketChunk := c
	if rapid.IntRange(0, 2).Draw(t, "override") == 0 {
		bucketChunk = rapid.IntRange(1, 12).Draw(t, "bchunk")
	}
	// suspend after which writes (tracked only)
	susp := bson.A{}
	if life == "tracked" || strings.HasPrefix(life, "trackedDelete") {
		for i := range writes {
			if rapid.IntRange(0, 3).Draw(t, "susp") == 0 {
				susp = append(susp, int32(i))
			}
		}
	}
	abortAt := int32(rapid.IntRange(0, len(writes)).Draw(t, "abortAt"))
	trackedAbort := rapid.Bool().Draw(t, "trackedAbort")
	// read script
	reads := bson.A{}
	for i, n := 0, rapid.IntRange(1, 12).Draw(t, "nreads"); i < n; i++ {
		switch rapid.IntRange(0, 2).Draw(t, "rk") {
		case 0:
			reads = append(reads, bson.D{{Key: "read", Value: int32(rapid.IntRange(0, 3*c).Draw(t, "rn"))}})
		case 1:
			reads = append(reads, bson.D{{Key: "seek", Value: int32(rapid.IntRange(-L-3, L+3).Draw(t, "so"))}, {Key: "whence", Value: int32(rapid.IntRange(0, 2).Draw(t, "wh"))}})
		default:
			reads = append(reads, bson.D{{Key: "skip", Value: int32(rapid.IntRange(-c-1, 2*c+1).Draw(t, "sk"))}})
		}
		if rapid.Bool().Draw(t, "nopos") {
			last := reads[len(reads)-1].(bson.D)
			reads[len(reads)-1] = append(last, bson.E{Key: "nopos", Value: true})
		}
	}
	return bson.D{{Key: "chunk", Value: int32(c)}, {Key: "bucketChunk", Value: int32(bucketChunk)}, {Key: "buffer", Value: int32(b)}, {Key: "length", Value: int32(L)}, {Key: "seed", Value: int32(rapid.IntRange(1, 1000).Draw(t, "seed"))},
		{Key: "writes", Value: writes}, {Key: "life", Value: life}, {Key: "suspendAfter", Value: susp}, {Key: "abortAt", Value: abortAt}, {Key: "trackedAbort", Value: trackedAbort}, {Key: "reads", Value: reads}}
}

func min(a, b int) int {
	if a < b {
		return a
	}
	return b
}

func runC18(c bson.D, x *Ctx) (err error) {
	defer func() {
		if p := recover(); p != nil {
			err = fmt.Errorf("panic: %v", p)
		}
	}()
	cs, buf, L := asI(getD(c, "chunk")), asI(getD(c, "buffer")), asI(getD(c, "length"))
	if cs <= 0 || buf < cs {
		return fmt.Errorf("harness: invalid case")
	}
	data := contentOf(asI(getD(c, "seed")), L)
	life := asS(getD(c, "life"))
	var writes []int
	for _, w := range asA(getD(c, "writes")) {
		writes = append(writes, asI(w))
	}
	susp := map[int]bool{}
	for _, s := range asA(getD(c, "suspendAfter")) {
		susp[asI(s)] = true
	}
	env, e := openMem()
	if e != nil {
		return fmt.Errorf("harness: %v", e)
	}
	defer env.close()
	ctx := context.Background()
	db := env.client.Database("g")
	bcs := asI(getD(c, "bucketChunk"))
	if bcs <= 0 {
		bcs = cs
	}
	bucket := lungo.NewBucket(db, options.GridFSBucket().SetChunkSizeBytes(int32(bcs)))
	var uopts []*options.UploadOptions
	if bcs != cs {
		uopts = append(uopts, options.GridFSUpload().SetChunkSizeBytes(int32(cs)))
		x.Class("upload-overrides-chunk-size")
	}
	tracked := life == "tracked" || strings.HasPrefix(life, "trackedDelete") || (life == "abort" && asB(getD(c, "trackedAbort")))
	if tracked {
		bucket.EnableTracking()
	}
	lungo.VerifUploadBuffer.Store(int64(buf))
	defer lungo.VerifUploadBuffer.Store(0)
	id := "file-1"
	chunksColl := db.Collection("fs.chunks")
	filesColl := db.Collection("fs.files")
	markersColl := db.Collection("fs.markers")
	countOf := func(coll lungo.ICollection, filter bson.D) int64 {
		n, _ := coll.CountDocuments(ctx, filter)
		return n
	}
	if strings.HasPrefix(life, "streamFail") {
		// the source reader fails part-way: the upload is abandoned and
		// nothing of it stays behind
		if life == "streamFailTracked" {
			bucket.EnableTracking()
		}
		failAt := asI(getD(c, "abortAt")) * L / (len(writes) + 1)
		rd := &failingReader{data: data[:failAt], step: cs + 1}
		if e := bucket.UploadFromStreamWithID(ctx, id, "f", rd, uopts...); e == nil {
			return fmt.Errorf("UploadFromStreamWithID succeeded although the source reader failed after %d bytes", failAt)
		}
		if n := countOf(chunksColl, bson.D{}) + countOf(filesColl, bson.D{}) + countOf(markersColl, bson.D{}); n != 0 {
			return fmt.Errorf("an upload whose source reader failed after %d of %d bytes left %d documents (file / chunks / markers) behind", failAt, L, n)
		}
		x.Class("life:" + life)
		if failAt > buf {
			x.Class("reader-failed-after-a-flush")
			x.NonTrivial()
		}
		return nil
	}
	if life == "stream" {
		// the one-call upload from a reader that hands out odd-sized pieces
		if e := bucket.UploadFromStreamWithID(ctx, id, "f", &failingReader{data: data, step: cs + 1, noFail: true}, uopts...); e != nil {
			return fmt.Errorf("UploadFromStreamWithID failed: %v", e)
		}
	}
	var us *lungo.UploadStream
	if life != "stream" {
		var e error
		us, e = bucket.OpenUploadStreamWithID(ctx, id, "f", uopts...)
		if e != nil {
			return fmt.Errorf("OpenUploadStream failed: %v", e)
		}
	} else {
		writes = nil
	}
	off := 0
	aborted := false
	suspended := 0
	for i, w := range writes {
		if life == "abort" && i == asI(getD(c, "abortAt")) {
			if e := us.Abort(); e != nil {
				return fmt.Errorf("Abort failed: %v", e)
			}
			aborted = true
			break
		}
		n, e := us.Write(data[off : off+w])
		if e != nil || n != w {
			return fmt.Errorf("Write(%d bytes) = %d, %v", w, n, e)
		}
		off += w
		if susp[i] {
			wrote := off // bytes handed to the stream before the suspend
			so, e := us.Suspend()
			if e != nil {
				return fmt.Errorf("Suspend failed: %v", e)
			}
			if so > int64(off) || so%int64(cs) != 0 || int64(off)-so >= int64(cs)+0 && false {
				return fmt.Errorf("Suspend returned offset %d after %d bytes were written (chunk size %d)", so, off, cs)
			}
			if int64(off)-so >= int64(cs) {
				return fmt.Errorf("Suspend left %d written bytes (>= one chunk of %d) unflushed", int64(off)-so, cs)
			}
			us, e = bucket.OpenUploadStreamWithID(ctx, id, "f", uopts...)
			if e != nil {
				return fmt.Errorf("reopening the upload stream failed: %v", e)
			}
			ro, e := us.Resume()
			if e != nil {
				if wrote == 0 && so == 0 && countOf(markersColl, bson.D{{Key: "files_id", Value: id}}) == 0 {
					// nothing had been written at all, so no marker exists:
					// the caller restarts the upload from scratch
					us, e = bucket.OpenUploadStreamWithID(ctx, id, "f", uopts...)
					if e != nil {
						return fmt.Errorf("reopening the upload stream failed: %v", e)
					}
					ro = 0
				} else {
					return fmt.Errorf("Resume failed: %v", e)
				}
			}
			if ro != so {
				return fmt.Errorf("Resume reports offset %d, Suspend returned %d", ro, so)
			}
			off = int(so) // continue from the returned offset
			// re-plan: the remaining writes cover data[off:]
			rest := L - off
			var nw []int
			for j := i + 1; j < len(writes); j++ {
				nw = append(nw, writes[j])
			}
			sum := 0
			for _, v := range nw {
				sum += v
			}
			if sum < rest {
				nw = append([]int{rest - sum}, nw...)
			}
			// run the re-planned tail inline
			for _, v := range nw {
				if v > L-off {
					v = L - off
				}
				n, e := us.Write(data[off : off+v])
				if e != nil || n != v {
					return fmt.Errorf("Write(%d bytes) after resume = %d, %v", v, n, e)
				}
				off += v
			}
			suspended++
			break
		}
	}
	if life == "abort" && !aborted {
		if e := us.Abort(); e != nil {
			return fmt.Errorf("Abort failed: %v", e)
		}
		aborted = true
	}
	if aborted {
		if n := countOf(chunksColl, bson.D{{Key: "files_id", Value: id}}); n != 0 {
			return fmt.Errorf("%d chunks left behind after Abort", n)
		}
		if n := countOf(markersColl, bson.D{{Key: "files_id", Value: id}}); n != 0 {
			return fmt.Errorf("%d markers left behind after Abort", n)
		}
		if n := countOf(filesColl, bson.D{{Key: "_id", Value: id}}); n != 0 {
			return fmt.Errorf("a file record exists after Abort")
		}
		x.Class("aborted")
		x.NonTrivial()
		return nil
	}
	if life != "stream" {
		if off != L {
			return fmt.Errorf("harness: wrote %d of %d bytes", off, L)
		}
		if e := us.Close(); e != nil {
			return fmt.Errorf("Close failed: %v", e)
		}
	}
	if life == "trackedDeleteUnclaimed" {
		// a finished upload that is never claimed is deleted: nothing remains
		if n := countOf(filesColl, bson.D{{Key: "_id", Value: id}}); n != 0 {
			return fmt.Errorf("tracked upload created the file before ClaimUpload")
		}
		if e := bucket.Delete(ctx, id); e != nil {
			return fmt.Errorf("tracked Delete of an unclaimed upload failed: %v", e)
		}
		if e := bucket.Cleanup(ctx, 0); e != nil {
			return fmt.Errorf("Cleanup failed: %v", e)
		}
		if n := countOf(chunksColl, bson.D{{Key: "files_id", Value: id}}) + countOf(filesColl, bson.D{{Key: "_id", Value: id}}) + countOf(markersColl, bson.D{}); n != 0 {
			return fmt.Errorf("%d documents (file / chunks / markers) left behind after deleting the unclaimed upload", n)
		}
		x.Class("life:" + life)
		x.NonTrivial()
		return nil
	}
	if tracked {
		if n := countOf(filesColl, bson.D{{Key: "_id", Value: id}}); n != 0 {
			return fmt.Errorf("tracked upload created the file before ClaimUpload")
		}
		if e := bucket.ClaimUpload(ctx, id); e != nil {
			return fmt.Errorf("ClaimUpload failed: %v", e)
		}
		if n := countOf(markersColl, bson.D{{Key: "files_id", Value: id}}); n != 0 {
			return fmt.Errorf("marker left after ClaimUpload")
		}
	}
	// file record and chunks
	var file lungo.BucketFile
	if e := filesColl.FindOne(ctx, bson.D{{Key: "_id", Value: id}}).Decode(&file); e != nil {
		return fmt.Errorf("file record missing: %v", e)
	}
	if file.Length != L || file.ChunkSize != cs {
		return fmt.Errorf("file record says length=%d chunkSize=%d, uploaded %d bytes with chunk size %d", file.Length, file.ChunkSize, L, cs)
	}
	cur, e := chunksColl.Find(ctx, bson.D{{Key: "files_id", Value: id}}, options.Find().SetSort(bson.D{{Key: "n", Value: 1}}))
	if e != nil {
		return e
	}
	var chunks []lungo.BucketChunk
	if e := cur.All(ctx, &chunks); e != nil {
		return e
	}
	want := (L + cs - 1) / cs
	if len(chunks) != want {
		return fmt.Errorf("%d chunks stored, want %d for %d bytes of chunk size %d", len(chunks), want, L, cs)
	}
	var joined []byte
	for i, ch := range chunks {
		sz := cs
		if i == want-1 && L%cs != 0 {
			sz = L % cs
		}
		if ch.Num != i || len(ch.Data) != sz {
			return fmt.Errorf("chunk %d has n=%d and %d bytes, want n=%d and %d bytes", i, ch.Num, len(ch.Data), i, sz)
		}
		joined = append(joined, ch.Data...)
	}
	if !bytes.Equal(joined, data) {
		at := 0
		for at < len(joined) && at < len(data) && joined[at] == data[at] {
			at++
		}
		return fmt.Errorf("stored chunks differ from the uploaded content at offset %d (length %d, chunk %d, buffer %d)", at, L, cs, buf)
	}
	// full download
	var sink bytes.Buffer
	if n, e := bucket.DownloadToStream(ctx, id, &sink); e != nil || int(n) != L || !bytes.Equal(sink.Bytes(), data) {
		return fmt.Errorf("DownloadToStream returned %d bytes (%v), equal=%v", n, e, bytes.Equal(sink.Bytes(), data))
	}
	// the same through the name
	var sink2 bytes.Buffer
	if n, e := bucket.DownloadToStreamByName(ctx, "f", &sink2); e != nil || int(n) != L || !bytes.Equal(sink2.Bytes(), data) {
		return fmt.Errorf("DownloadToStreamByName returned %d bytes (%v), equal=%v", n, e, bytes.Equal(sink2.Bytes(), data))
	}
	// read script against bytes.Reader (stream opened by id or by name)
	var ds *lungo.DownloadStream
	if asI(getD(c, "seed"))%2 == 0 {
		ds, e = bucket.OpenDownloadStream(ctx, id)
	} else {
		ds, e = bucket.OpenDownloadStreamByName(ctx, "f")
		x.Class("read-script-on-stream-opened-by-name")
	}
	if e != nil {
		return fmt.Errorf("opening the download stream failed: %v", e)
	}
	rd := bytes.NewReader(data)
	midChunkSeek := false
	for i, st := range asA(getD(c, "reads")) {
		sd := asD(st)
		switch {
		case getD(sd, "read") != nil:
			n := asI(getD(sd, "read"))
			b1, b2 := make([]byte, n), make([]byte, n)
			n1, e1 := ds.Read(b1)
			// the stream fills the buffer as far as possible (io.ReadFull semantics)
			n2, e2 := io.ReadFull(rd, b2)
			if e2 == io.ErrUnexpectedEOF {
				e2 = nil
			}
			if n == 0 {
				n2, e2 = rd.Read(b2)
			}
			if n1 != n2 || (e1 == nil) != (e2 == nil) || (e2 == io.EOF && e1 != io.EOF) || !bytes.Equal(b1[:n1], b2[:n2]) {
				return fmt.Errorf("read step %d: Read(%d) = %d,%v bytes %x; an in-memory reader gives %d,%v bytes %x", i, n, n1, e1, b1[:n1], n2, e2, b2[:n2])
			}
		case getD(sd, "seek") != nil:
			o, wh := int64(asI(getD(sd, "seek"))), asI(getD(sd, "whence"))
			p1, e1 := ds.Seek(o, wh)
			p2, e2 := rd.Seek(o, wh)
			if (e1 == nil) != (e2 == nil) || (e1 == nil && p1 != p2) {
				return fmt.Errorf("read step %d: Seek(%d,%d) = %d,%v; an in-memory reader gives %d,%v", i, o, wh, p1, e1, p2, e2)
			}
			if e1 == nil && p1%int64(cs) != 0 && int(p1) < L {
				midChunkSeek = true
			}
		default:
			o := int64(asI(getD(sd, "skip")))
			p1, e1 := ds.Skip(o)
			p2, e2 := rd.Seek(o, io.SeekCurrent)
			if (e1 == nil) != (e2 == nil) || (e1 == nil && p1 != p2) {
				return fmt.Errorf("read step %d: Skip(%d) = %d,%v; an in-memory reader gives %d,%v", i, o, p1, e1, p2, e2)
			}
		}
		// positions agree (asked after some of the steps only: asking is a
		// successful seek and would hide what a rejected one left behind)
		if getD(sd, "nopos") == nil {
			p1, e1 := ds.Seek(0, io.SeekCurrent)
			p2, _ := rd.Seek(0, io.SeekCurrent)
			if e1 != nil || p1 != p2 {
				return fmt.Errorf("after read step %d the stream position is %d (%v), the in-memory reader is at %d", i, p1, e1, p2)
			}
		}
	}
	_ = ds.Close()
	// deletion leaves nothing behind
	switch life {
	case "delete":
		if e := bucket.Delete(ctx, id); e != nil {
			return fmt.Errorf("Delete failed: %v", e)
		}
	case "trackedDelete", "trackedDelete2":
		if e := bucket.Delete(ctx, id); e != nil {
			return fmt.Errorf("tracked Delete failed: %v", e)
		}
		if life == "trackedDelete2" {
			// deleting again before the cleanup ran is harmless
			if e := bucket.Delete(ctx, id); e != nil {
				return fmt.Errorf("second tracked Delete failed: %v", e)
			}
		}
		if e := bucket.Cleanup(ctx, 0); e != nil {
			return fmt.Errorf("Cleanup failed: %v", e)
		}
	}
	if life == "delete" || life == "trackedDelete" || life == "trackedDelete2" {
		if n := countOf(chunksColl, bson.D{{Key: "files_id", Value: id}}) + countOf(filesColl, bson.D{{Key: "_id", Value: id}}) + countOf(markersColl, bson.D{}); n != 0 {
			return fmt.Errorf("%d documents (file / chunks / markers) left behind after deleting the file", n)
		}
	}
	x.Class("life:" + life)
	boundaryWrite := false
	pos := 0
	for _, w := range writes[:len(writes)] {
		pos += w
		if pos%cs != 0 && pos < L {
			boundaryWrite = true
		}
	}
	if L > buf {
		x.Class("longer-than-buffer")
	}
	if suspended > 0 {
		x.Class("suspended-and-resumed")
	}
	if (L > cs && L%cs != 0 && len(writes) >= 2 && boundaryWrite) || midChunkSeek {
		x.NonTrivial()
	}
	return nil
}

var propC18 = Register(&Prop{ID: "C18", Sub: "gridfs", Gen: genC18, Run: runC18})

func TestProp_C18_gridfs(t *testing.T) { propC18.Check(t) }

// failingReader hands out data in pieces of step bytes and then fails (or
// ends, with noFail).
type failingReader struct {
	data   []byte
	pos    int
	step   int
	noFail bool
}

func (r *failingReader) Read(p []byte) (int, error) {
	if r.pos >= len(r.data) {
		if r.noFail {
			return 0, io.EOF
		}
		return 0, fmt.Errorf("injected reader failure")
	}
	n := r.step
	if n > len(p) {
		n = len(p)
	}
	if n > len(r.data)-r.pos {
		n = len(r.data) - r.pos
	}
	copy(p, r.data[r.pos:r.pos+n])
	r.pos += n
	return n, nil
}
