package props

import (
	"context"
	"fmt"
	"strings"
	"sync"
	"testing"
	"time"

	"github.com/256dpi/lungo"
	"github.com/256dpi/lungo/bsonkit"
	"go.mongodb.org/mongo-driver/bson"
	"go.mongodb.org/mongo-driver/bson/primitive"
	"go.mongodb.org/mongo-driver/mongo"
	"go.mongodb.org/mongo-driver/mongo/options"
	"pgregory.net/rapid"
)

// C19: a TTL pass removes exactly the expired documents. Dates are generated
// relative to "now" ({$rel: seconds}) with a margin of at least 5 s on either
// side of every cutoff so the clock read inside the pass cannot flip a decision.

var ttlSeconds = []int{0, 1, 60, 3600}

func relDate(sec int) bson.D { return bson.D{{Key: "$rel", Value: int32(sec)}} }

func genTTLValue(t *rapid.T, expiry int) interface{} {
	old := relDate(-(expiry + rapid.SampledFrom([]int{5, 30, 4000, 100000}).Draw(t, "oldm")))
	fresh := relDate(-expiry + rapid.SampledFrom([]int{5, 30, 4000}).Draw(t, "newm"))
	switch rapid.IntRange(0, 15).Draw(t, "vk") {
	case 14:
		return bson.A{old, old} // a repeated element yields one index entry
	case 15:
		return bson.A{old, fresh, old}
	case 0, 1, 2:
		return old
	case 3, 4, 5:
		return fresh
	case 6:
		return bson.A{"x", old, int32(1)}
	case 7:
		return bson.A{fresh, "y"}
	case 8:
		return bson.A{}
	case 9:
		// "old looking" values of other types
		return rapid.SampledFrom([]interface{}{int32(0), int64(-1000000000000), float64(1), "1970-01-01", primitive.Timestamp{T: 1, I: 1}, nil, true, bson.D{{Key: "d", Value: int32(0)}}, primitive.DateTime(0).Time().String()}).Draw(t, "other")
	case 10:
		return relDate(-10000000) // far past
	case 11:
		return relDate(10000000) // far future
	case 12:
		return bson.A{fresh, old}
	default:
		return nil
	}
}

func genC19(t *rapid.T) bson.D {
	ncoll := rapid.IntRange(1, 3).Draw(t, "ncoll")
	colls := bson.A{}
	for ci := 0; ci < ncoll; ci++ {
		nttl := rapid.SampledFrom([]int{0, 1, 1, 1, 2}).Draw(t, "nttl")
		fields := []string{"t", "u.d"}
		idx := bson.A{}
		var ttlFields []string
		var ttlExp []int
		for k := 0; k < nttl; k++ {
			e := rapid.SampledFrom(ttlSeconds).Draw(t, "exp")
			idx = append(idx, bson.D{{Key: "field", Value: fields[k]}, {Key: "ttl", Value: int32(e)}})
			ttlFields = append(ttlFields, fields[k])
			ttlExp = append(ttlExp, e)
		}
		extra := rapid.SampledFrom([]string{"", "unique", "compound", "partial", "multikey"}).Draw(t, "extra")
		ndocs := rapid.IntRange(0, 8).Draw(t, "ndocs")
		docs := bson.A{}
		for di := 0; di < ndocs; di++ {
			d := bson.D{{Key: "_id", Value: int32(di)}, {Key: "k", Value: int32(di)}, {Key: "g", Value: int32(di % 2)}}
			if extra == "multikey" {
				d = append(d, bson.E{Key: "tags", Value: rapid.SampledFrom([]interface{}{bson.A{"x", "x"}, bson.A{"x", "y", "x"}, bson.A{}, "x", bson.A{"y"}}).Draw(t, "tags")})
			}
			// field t
			expT := 60
			if len(ttlExp) > 0 {
				expT = ttlExp[0]
			}
			if rapid.IntRange(0, 9).Draw(t, "hasT") > 0 {
				d = append(d, bson.E{Key: "t", Value: genTTLValue(t, expT)})
			}
			expU := 60
			if len(ttlExp) > 1 {
				expU = ttlExp[1]
			}
			switch rapid.IntRange(0, 9).Draw(t, "hasU") {
			case 0, 1, 2, 3:
				d = append(d, bson.E{Key: "u", Value: bson.D{{Key: "d", Value: genTTLValue(t, expU)}}})
			case 4:
				d = append(d, bson.E{Key: "u", Value: "scalar"})
			}
			docs = append(docs, d)
		}
		colls = append(colls, bson.D{{Key: "ns", Value: fmt.Sprintf("d1.c%d", ci)}, {Key: "ttl", Value: idx}, {Key: "extra", Value: extra}, {Key: "docs", Value: docs}})
	}
	// some cases run on the single-file store and reload it before the pass:
	// the TTL definitions the pass works from are then the persisted ones
	return bson.D{{Key: "colls", Value: colls}, {Key: "reopen", Value: rapid.IntRange(0, 999).Draw(t, "reopen")%10 == 5}}
}

func resolveRel(v interface{}, now time.Time) interface{} {
	switch x := v.(type) {
	case bson.D:
		if len(x) == 1 && x[0].Key == "$rel" {
			return primitive.NewDateTimeFromTime(now.Add(time.Duration(asI(x[0].Value)) * time.Second))
		}
		out := make(bson.D, len(x))
		for i, e := range x {
			out[i] = bson.E{Key: e.Key, Value: resolveRel(e.Value, now)}
		}
		return out
	case bson.A:
		out := make(bson.A, len(x))
		for i, e := range x {
			out[i] = resolveRel(e, now)
		}
		return out
	}
	return v
}

// relValuesAt returns the {$rel} offsets of the date values at a path
// (embedded documents; a terminal array contributes its elements).
func relValuesAt(doc bson.D, path string) []int {
	var cur interface{} = doc
	for _, c := range strings.Split(path, ".") {
		d, ok := cur.(bson.D)
		if !ok {
			return nil
		}
		if len(d) == 1 && d[0].Key == "$rel" {
			return nil
		}
		v := getD(d, c)
		if v == nil {
			return nil
		}
		cur = v
	}
	var out []int
	add := func(v interface{}) {
		if d, ok := v.(bson.D); ok && len(d) == 1 && d[0].Key == "$rel" {
			out = append(out, asI(d[0].Value))
		}
	}
	if a, ok := cur.(bson.A); ok {
		for _, e := range a {
			add(e)
		}
	} else {
		add(cur)
	}
	return out
}

func runC19(c bson.D, x *Ctx) (err error) {
	defer func() {
		if p := recover(); p != nil {
			err = fmt.Errorf("panic: %v", p)
		}
	}()
	open := openMem
	if asB(getD(c, "reopen")) {
		open = openFile
	}
	env, e := open()
	if e != nil {
		return fmt.Errorf("harness: %v", e)
	}
	defer env.close()
	ctx := context.Background()
	now := time.Now()
	type expect struct {
		ns       string
		removed  map[int32]bool
		hasTTL   bool
		ttlField string
		survives int
	}
	var exps []expect
	totalRemoved, oldLookingSurvivor, recentSurvivor := 0, 0, 0
	for _, cv := range asA(getD(c, "colls")) {
		cd := asD(cv)
		ns := asS(getD(cd, "ns"))
		coll := env.coll(ns)
		ex := expect{ns: ns, removed: map[int32]bool{}}
		for _, dv := range asA(getD(cd, "docs")) {
			if _, e := coll.InsertOne(ctx, resolveRel(dv, now)); e != nil {
				return fmt.Errorf("harness: insert failed: %v", e)
			}
		}
		if len(asA(getD(cd, "docs"))) == 0 {
			db, cn := splitNS(ns)
			_ = env.client.Database(db).CreateCollection(ctx, cn)
		}
		type ttlIx struct {
			field string
			exp   int
		}
		var ttls []ttlIx
		for _, iv := range asA(getD(cd, "ttl")) {
			id := asD(iv)
			f := asS(getD(id, "field"))
			ex.hasTTL = true
			ex.ttlField = f
			ttls = append(ttls, ttlIx{f, asI(getD(id, "ttl"))})
			if _, e := coll.Indexes().CreateOne(ctx, mongo.IndexModel{Keys: bson.D{{Key: f, Value: int32(1)}}, Options: options.Index().SetExpireAfterSeconds(int32(asI(getD(id, "ttl"))))}); e != nil {
				return fmt.Errorf("creating a TTL index on %q failed: %v", f, e)
			}
		}
		switch asS(getD(cd, "extra")) {
		case "unique":
			_, e = coll.Indexes().CreateOne(ctx, mongo.IndexModel{Keys: bson.D{{Key: "k", Value: int32(1)}}, Options: options.Index().SetUnique(true)})
		case "compound":
			_, e = coll.Indexes().CreateOne(ctx, mongo.IndexModel{Keys: bson.D{{Key: "g", Value: int32(1)}, {Key: "k", Value: int32(-1)}}})
		case "partial":
			_, e = coll.Indexes().CreateOne(ctx, mongo.IndexModel{Keys: bson.D{{Key: "k", Value: int32(1)}}, Options: options.Index().SetPartialFilterExpression(bson.D{{Key: "g", Value: int32(1)}})})
		case "multikey":
			_, e = coll.Indexes().CreateOne(ctx, mongo.IndexModel{Keys: bson.D{{Key: "tags", Value: int32(1)}}})
		}
		if e != nil {
			return fmt.Errorf("harness: extra index failed: %v", e)
		}
		for _, dv := range asA(getD(cd, "docs")) {
			d := asD(dv)
			id := getD(d, "_id").(int32)
			gone := false
			for _, ti := range ttls {
				for _, rel := range relValuesAt(d, ti.field) {
					if rel < -ti.exp {
						gone = true
					}
				}
			}
			if gone {
				ex.removed[id] = true
				totalRemoved++
			} else {
				ex.survives++
				if len(ttls) > 0 {
					for _, ti := range ttls {
						rels := relValuesAt(d, ti.field)
						if len(rels) > 0 {
							recentSurvivor++
						} else if ti.field == "t" && getD(d, "t") != nil {
							oldLookingSurvivor++
						}
					}
				}
			}
		}
		exps = append(exps, ex)
	}
	if asB(getD(c, "reopen")) {
		if totalRemoved == 0 {
			// nothing to expire: move the change log two hours into the past
			// and reopen with tight retention - a pass that removes nothing
			// is not a commit and must not trim it either
			if e := env.age(); e != nil {
				return fmt.Errorf("ageing the change log failed: %v", e)
			}
			x.Class("aged-change-log-before-a-pass-with-nothing-to-remove")
		} else if e := env.reopen(); e != nil {
			return fmt.Errorf("closing and reopening the database failed: %v", e)
		}
		x.Class("reloaded-before-pass")
	}
	// snapshot before the pass
	catB := env.engine.Catalog()
	before := contentsOf(catB)
	oplogLen := len(catB.Namespaces[lungo.Oplog].Documents.List)
	dumpB := catalogDump(catB, false)
	// a pass that is aborted (as the loop does when Expire fails, or when the
	// commit cannot be stored) changes nothing
	txn0, e := env.engine.Begin(nil, true)
	if e != nil {
		return fmt.Errorf("harness: %v", e)
	}
	if e := txn0.Expire(); e != nil {
		env.engine.Abort(txn0)
		return fmt.Errorf("Expire failed: %v", e)
	}
	env.engine.Abort(txn0)
	if d := catalogDump(env.engine.Catalog(), false); d != dumpB {
		return fmt.Errorf("an aborted expiry pass changed the database:\n--- before\n%s--- after\n%s", dumpB, d)
	}
	// the pass, exactly as the background loop does it
	txn, e := env.engine.Begin(nil, true)
	if e != nil {
		return fmt.Errorf("harness: %v", e)
	}
	if e := txn.Expire(); e != nil {
		env.engine.Abort(txn)
		return fmt.Errorf("Expire failed: %v", e)
	}
	if oplogLen%2 == 1 {
		// a second pass in the same transaction finds nothing left and changes
		// nothing - in particular not what the first one did
		if e := txn.Expire(); e != nil {
			env.engine.Abort(txn)
			return fmt.Errorf("second Expire failed: %v", e)
		}
		x.Class("two-passes-in-one-transaction")
	}
	if e := env.engine.Commit(txn); e != nil {
		return fmt.Errorf("commit of the expiry pass failed: %v", e)
	}
	catA := env.engine.Catalog()
	after := contentsOf(catA)
	if n := len(catA.Namespaces[lungo.Oplog].Documents.List); n < oplogLen {
		return fmt.Errorf("the expiry pass (%d documents to remove) shrank the change log from %d to %d events", totalRemoved, oplogLen, n)
	}
	events := catA.Namespaces[lungo.Oplog].Documents.List[oplogLen:]
	if totalRemoved == 0 {
		if d := catalogDump(catA, false); d != dumpB {
			return fmt.Errorf("a pass that has nothing to remove changed the database:\n--- before\n%s--- after\n%s", dumpB, d)
		}
	}
	delEvents := map[string]int{}
	for _, ev := range events {
		if asS(getD(*ev, "operationType")) != "delete" {
			return fmt.Errorf("the expiry pass logged a %q event", asS(getD(*ev, "operationType")))
		}
		key := fmt.Sprintf("%s.%s/%v", asS(getPathD(*ev, "ns.db")), asS(getPathD(*ev, "ns.coll")), getPathD(*ev, "documentKey._id"))
		delEvents[key]++
	}
	for _, ex := range exps {
		var wantIDs []string
		for _, d := range before[ex.ns] {
			var doc bson.D
			_ = bson.Unmarshal(d.raw, &doc)
			id := getD(doc, "_id").(int32)
			if ex.removed[id] {
				if delEvents[fmt.Sprintf("%s/%v", ex.ns, id)] != 1 {
					return fmt.Errorf("removal of %s _id %d is logged %d times", ex.ns, id, delEvents[fmt.Sprintf("%s/%v", ex.ns, id)])
				}
				delete(delEvents, fmt.Sprintf("%s/%v", ex.ns, id))
				continue
			}
			wantIDs = append(wantIDs, string(d.raw))
		}
		var gotIDs []string
		for _, d := range after[ex.ns] {
			gotIDs = append(gotIDs, string(d.raw))
		}
		if fmt.Sprint(len(gotIDs)) != fmt.Sprint(len(wantIDs)) || strings.Join(gotIDs, "|") != strings.Join(wantIDs, "|") {
			var gd, wd bson.A
			for _, s := range gotIDs {
				var doc bson.D
				_ = bson.Unmarshal([]byte(s), &doc)
				gd = append(gd, getD(doc, "_id"))
			}
			for _, s := range wantIDs {
				var doc bson.D
				_ = bson.Unmarshal([]byte(s), &doc)
				wd = append(wd, getD(doc, "_id"))
			}
			return fmt.Errorf("after the expiry pass %s holds ids %s, exactly the unexpired documents are %s (unchanged, same order)", ex.ns, show(gd), show(wd))
		}
	}
	if len(delEvents) > 0 {
		return fmt.Errorf("delete events for documents that did not expire: %v", delEvents)
	}
	if err := checkIndexCoherence(catA, x, nil); err != nil {
		return fmt.Errorf("after the expiry pass: %v", err)
	}
	if totalRemoved > 0 {
		x.Class("pass-removed-documents")
	} else {
		x.Class("pass-removed-nothing")
	}
	if len(exps) >= 2 && totalRemoved >= 1 && oldLookingSurvivor >= 1 && recentSurvivor >= 1 {
		x.NonTrivial()
	}
	// a pass that removes nothing, run in a transaction that has written
	// before, leaves that write alone: the document (no date in the indexed
	// field) is there after the commit
	if len(exps) > 0 {
		db, cn := splitNS(exps[0].ns)
		handle := lungo.Handle{db, cn}
		txn2, e := env.engine.Begin(nil, true)
		if e != nil {
			return fmt.Errorf("harness: %v", e)
		}
		fresh := bson.D{{Key: "_id", Value: int32(1 << 20)}, {Key: "t", Value: "no date"}}
		if _, e := txn2.Insert(handle, bsonkit.List{&fresh}, true); e != nil {
			// (e.g. a unique index of the case does not admit it)
			env.engine.Abort(txn2)
			x.Class("write-before-pass-not-admitted")
			return nil
		}
		if e := txn2.Expire(); e != nil {
			env.engine.Abort(txn2)
			return fmt.Errorf("Expire failed: %v", e)
		}
		if e := env.engine.Commit(txn2); e != nil {
			return fmt.Errorf("commit of a write followed by an expiry pass failed: %v", e)
		}
		found := false
		for _, d := range env.engine.Catalog().Namespaces[handle].Documents.List {
			if id, ok := getD(*d, "_id").(int32); ok && id == 1<<20 {
				found = true
			}
		}
		if !found {
			return fmt.Errorf("a document without a date, inserted in the transaction that then ran an expiry pass with nothing to remove, is gone after the commit")
		}
	}
	// a pass that has to wait for the writer slot works on what the writer it
	// waited for committed: it removes the expired document and leaves the
	// document that writer inserted (no date) alone
	for _, ex := range exps {
		if ex.ttlField == "" || strings.Contains(ex.ttlField, ".") {
			continue
		}
		coll := env.coll(ex.ns)
		oldID, newID := int32(1<<21), int32(1<<22)
		if _, e := coll.InsertOne(ctx, bson.D{{Key: "_id", Value: oldID}, {Key: ex.ttlField, Value: primitive.DateTime(0)}, {Key: "k", Value: "waiting-pass-old"}}); e != nil {
			x.Class("waiting-pass-skipped")
			break
		}
		sess, e := env.client.StartSession()
		if e != nil {
			return fmt.Errorf("harness: %v", e)
		}
		if e := sess.StartTransaction(); e != nil {
			return fmt.Errorf("harness: %v", e)
		}
		var ierr error
		_ = lungo.WithSession(ctx, sess, func(sc lungo.ISessionContext) error {
			_, ierr = coll.InsertOne(sc, bson.D{{Key: "_id", Value: newID}, {Key: ex.ttlField, Value: "no date"}, {Key: "k", Value: "waiting-pass-new"}})
			return nil
		})
		if ierr != nil {
			_ = sess.AbortTransaction(ctx)
			sess.EndSession(ctx)
			x.Class("waiting-pass-skipped")
			break
		}
		waiting := make(chan struct{})
		var once sync.Once
		hk := func(point string) {
			if point == "begin.unlocked" {
				once.Do(func() { close(waiting) })
			}
		}
		lungo.VerifHook.Store(&hk)
		passErr := make(chan error, 1)
		go func() {
			bctx, bcancel := context.WithTimeout(context.Background(), 30*time.Second)
			defer bcancel()
			txn, e := env.engine.Begin(bctx, true)
			if e != nil {
				passErr <- fmt.Errorf("Begin of the waiting pass failed: %v", e)
				return
			}
			if e := txn.Expire(); e != nil {
				env.engine.Abort(txn)
				passErr <- fmt.Errorf("Expire failed: %v", e)
				return
			}
			passErr <- env.engine.Commit(txn)
		}()
		select {
		case <-waiting:
		case <-time.After(10 * time.Second):
		}
		time.Sleep(2 * time.Millisecond)
		cerr := sess.CommitTransaction(ctx)
		sess.EndSession(ctx)
		var perr error
		select {
		case perr = <-passErr:
		case <-time.After(40 * time.Second):
			lungo.VerifHook.Store(nil)
			return fmt.Errorf("an expiry pass that waited for the writer slot did not finish within 40 s after the slot was released")
		}
		lungo.VerifHook.Store(nil)
		if cerr != nil || perr != nil {
			return fmt.Errorf("session commit / waiting expiry pass failed: %v / %v", cerr, perr)
		}
		hasOld, hasNew := false, false
		db, cn := splitNS(ex.ns)
		for _, d := range env.engine.Catalog().Namespaces[lungo.Handle{db, cn}].Documents.List {
			if id, ok := getD(*d, "_id").(int32); ok && id == oldID {
				hasOld = true
			} else if ok && id == newID {
				hasNew = true
			}
		}
		if hasOld {
			return fmt.Errorf("an expiry pass that waited for the writer slot did not remove the expired document (%s: 1970)", ex.ttlField)
		}
		if !hasNew {
			return fmt.Errorf("an expiry pass that waited for the writer slot removed (or never saw) the document without a date that the writer it waited for had committed")
		}
		x.Class("pass-waited-for-a-writer")
		break
	}
	return nil
}

var propC19 = Register(&Prop{ID: "C19", Sub: "pass", Gen: genC19, Run: runC19})

func TestProp_C19_pass(t *testing.T) { propC19.Check(t) }
