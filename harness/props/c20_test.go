package props

import (
	"context"
	"fmt"
	"runtime/debug"
	"strings"
	"testing"
	"time"

	"github.com/256dpi/lungo/bsonkit"
	"github.com/256dpi/lungo/mongokit"
	"go.mongodb.org/mongo-driver/bson"
	"go.mongodb.org/mongo-driver/bson/primitive"
	"go.mongodb.org/mongo-driver/mongo"
	"go.mongodb.org/mongo-driver/mongo/options"
	"pgregory.net/rapid"

	"verifharness/gen"
)

// C20: well-typed input never panics the library, never hangs it, and never
// leaves the engine unable to serve the next call.

// documented panics that are excluded by the property text
func documentedPanic(msg string) bool {
	return strings.HasPrefix(msg, "lungo: unsupported option") || strings.HasPrefix(msg, "lungo: missing") || strings.HasPrefix(msg, "lungo: not implemented") || strings.HasPrefix(msg, "lungo: invalid index name") || strings.HasPrefix(msg, "lungo: change stream pipelines")
}

type callOutcome struct {
	name  string
	err   error
	panic string
}

// guarded runs f and reports a panic (with the innermost lungo frame).
func guarded(name string, f func() error) (out callOutcome) {
	out.name = name
	defer func() {
		if p := recover(); p != nil {
			msg := fmt.Sprint(p)
			if documentedPanic(msg) {
				out.err = fmt.Errorf("documented panic: %s", msg)
				return
			}
			out.panic = fmt.Sprintf("%s panicked: %v\n%s", name, p, lungoFrames(debug.Stack()))
		}
	}()
	out.err = f()
	return
}

func lungoFrames(stack []byte) string {
	var keep []string
	lines := strings.Split(string(stack), "\n")
	for i := 0; i+1 < len(lines); i++ {
		if strings.Contains(lines[i], "256dpi/lungo") && !strings.Contains(lines[i], "verifharness") {
			keep = append(keep, strings.TrimSpace(lines[i])+" "+strings.TrimSpace(lines[i+1]))
			if len(keep) >= 6 {
				break
			}
		}
	}
	return strings.Join(keep, "\n")
}

func withWatchdog(f func() error) error {
	done := make(chan error, 1)
	go func() { done <- f() }()
	select {
	case err := <-done:
		return err
	case <-time.After(20 * time.Second):
		buf := make([]byte, 1<<16)
		_ = buf
		return fmt.Errorf("hang: the calls did not return within 20 s")
	}
}

func genC20Kit(t *rapid.T) bson.D {
	doc := gen.HostileDoc(3).Draw(t, "doc")
	doc2 := gen.HostileDoc(2).Draw(t, "doc2")
	return bson.D{
		{Key: "doc", Value: doc}, {Key: "doc2", Value: doc2},
		{Key: "filter", Value: gen.HostileFilter(2).Draw(t, "filter")},
		{Key: "update", Value: gen.HostileUpdate().Draw(t, "update")},
		{Key: "afs", Value: bson.A{gen.HostileFilter(1).Draw(t, "af1"), gen.HostileFilter(0).Draw(t, "af2")}},
		{Key: "proj", Value: gen.HostileProjection().Draw(t, "proj")},
		{Key: "sort", Value: gen.HostileSort().Draw(t, "sort")},
		{Key: "path", Value: rapid.SampledFrom(gen.HostilePaths).Draw(t, "path")},
		{Key: "path2", Value: rapid.SampledFrom(gen.HostilePaths).Draw(t, "path2")},
		{Key: "v1", Value: gen.HostileValue(2).Draw(t, "v1")},
		{Key: "v2", Value: gen.HostileValue(2).Draw(t, "v2")},
		{Key: "schema", Value: gen.HostileSchema(2).Draw(t, "schema")},
		{Key: "upsert", Value: rapid.Bool().Draw(t, "upsert")},
	}
}

func runC20Kit(c bson.D, x *Ctx) error {
	doc, doc2 := asD(getD(c, "doc")), asD(getD(c, "doc2"))
	filter, update, proj, srt := asD(getD(c, "filter")), asD(getD(c, "update")), asD(getD(c, "proj")), asD(getD(c, "sort"))
	path, path2 := asS(getD(c, "path")), asS(getD(c, "path2"))
	v1, v2 := getD(c, "v1"), getD(c, "v2")
	schema := asD(getD(c, "schema"))
	upsert := asB(getD(c, "upsert"))
	var afs []*bson.D
	for _, f := range asA(getD(c, "afs")) {
		fd := freshD(asD(f))
		afs = append(afs, &fd)
	}
	nd := func() *bson.D { d := freshD(doc); return &d }
	calls := []func() callOutcome{
		func() callOutcome {
			return guarded("bsonkit.Compare", func() error {
				bsonkit.Compare(fresh(v1), fresh(v2))
				bsonkit.Compare(freshD(doc), freshD(doc2))
				return nil
			})
		},
		func() callOutcome {
			return guarded("bsonkit.Get", func() error { bsonkit.Get(nd(), path); return nil })
		},
		func() callOutcome {
			return guarded("bsonkit.All", func() error {
				bsonkit.All(nd(), path, true, true)
				bsonkit.All(nd(), path, false, true)
				bsonkit.All(nd(), path, true, false)
				bsonkit.All(nd(), path, false, false)
				return nil
			})
		},
		func() callOutcome {
			return guarded("bsonkit.Put", func() error { _, err := bsonkit.Put(nd(), path, fresh(v1), upsert); return err })
		},
		func() callOutcome {
			return guarded("bsonkit.Unset", func() error { bsonkit.Unset(nd(), path); return nil })
		},
		func() callOutcome {
			return guarded("bsonkit.Increment", func() error { _, err := bsonkit.Increment(nd(), path, fresh(v1)); return err })
		},
		func() callOutcome {
			return guarded("bsonkit.Multiply", func() error { _, err := bsonkit.Multiply(nd(), path, fresh(v1)); return err })
		},
		func() callOutcome {
			return guarded("bsonkit.Push", func() error { _, err := bsonkit.Push(nd(), path, fresh(v1)); return err })
		},
		func() callOutcome {
			return guarded("bsonkit.Pop", func() error { _, err := bsonkit.Pop(nd(), path, upsert); return err })
		},
		func() callOutcome {
			return guarded("bsonkit.Add/Mul/Mod", func() error {
				bsonkit.Add(fresh(v1), fresh(v2))
				bsonkit.Mul(fresh(v1), fresh(v2))
				bsonkit.Mod(fresh(v1), fresh(v2))
				return nil
			})
		},
		func() callOutcome {
			return guarded("bsonkit.Sort/Collect/Pick", func() error {
				d1, d2 := freshD(doc), freshD(doc2)
				list := bsonkit.List{&d1, &d2, &d1}
				bsonkit.Sort(list, []bsonkit.Column{{Path: path}, {Path: path2, Reverse: true}})
				bsonkit.Collect(list, path, true, true, true, true)
				bsonkit.Collect(list, path, false, false, false, false)
				bsonkit.Pick(list, path, upsert)
				return nil
			})
		},
		func() callOutcome { return guarded("bsonkit.Clone", func() error { bsonkit.Clone(nd()); return nil }) },
		func() callOutcome {
			return guarded("bsonkit.Schema.Evaluate", func() error { return bsonkit.NewSchema(freshD(schema)).Evaluate(freshD(doc)) })
		},
		func() callOutcome {
			return guarded("bsonkit.Index", func() error {
				ix := bsonkit.NewIndex(upsert, []bsonkit.Column{{Path: path}, {Path: path2, Reverse: true}})
				d1, d2 := freshD(doc), freshD(doc2)
				ix.Add(&d1)
				ix.Add(&d2)
				ix.Has(&d2)
				ix.List()
				ix.Remove(&d1)
				return nil
			})
		},
		func() callOutcome {
			return guarded("mongokit.Match", func() error { f := freshD(filter); _, err := mongokit.Match(nd(), &f); return err })
		},
		func() callOutcome {
			return guarded("mongokit.Apply", func() error {
				u, f := freshD(update), freshD(filter)
				_, err := mongokit.Apply(nd(), &f, &u, upsert, afs)
				return err
			})
		},
		func() callOutcome {
			return guarded("mongokit.Project", func() error { p := freshD(proj); _, err := mongokit.Project(nd(), &p); return err })
		},
		func() callOutcome {
			return guarded("mongokit.Resolve", func() error {
				f := freshD(filter)
				return mongokit.Resolve(path, &f, nd(), afs, func(string) error { return nil })
			})
		},
		func() callOutcome {
			return guarded("mongokit.Extract", func() error { f := freshD(filter); _, err := mongokit.Extract(&f); return err })
		},
		func() callOutcome {
			return guarded("mongokit.Sort/Columns", func() error {
				s := freshD(srt)
				d1, d2 := freshD(doc), freshD(doc2)
				_, err := mongokit.Sort(bsonkit.List{&d1, &d2}, &s)
				return err
			})
		},
		func() callOutcome {
			return guarded("mongokit.Distinct", func() error {
				d1, d2 := freshD(doc), freshD(doc2)
				mongokit.Distinct(bsonkit.List{&d1, &d2}, path)
				return nil
			})
		},
		func() callOutcome {
			return guarded("mongokit.Collection", func() error {
				coll := mongokit.NewCollection(true)
				d1, d2 := freshD(doc), freshD(doc2)
				f, u, s := freshD(filter), freshD(update), freshD(srt)
				_, _ = coll.Insert(&d1)
				_, _ = coll.Insert(&d2)
				_, _ = coll.CreateIndex("", mongokit.IndexConfig{Key: &s, Unique: upsert})
				_, _ = coll.Find(&f, &s, 1, 2)
				_, _ = coll.Update(&f, &u, &s, 0, 0, afs)
				_, _ = coll.Upsert(&f, nil, &u, afs)
				_, _ = coll.Replace(&f, nd(), &s)
				_, _ = coll.Delete(&f, &s, 1, 1)
				return nil
			})
		},
	}
	errs := 0
	var firstPanic string
	err := withWatchdog(func() error {
		for _, call := range calls {
			o := call()
			if o.panic != "" && firstPanic == "" {
				firstPanic = o.panic
			}
			if o.err != nil {
				errs++
			}
		}
		return nil
	})
	if err != nil {
		return err
	}
	if firstPanic != "" {
		return fmt.Errorf("%s", firstPanic)
	}
	x.Rec.ClassN("calls-returning-error", errs)
	x.Rec.ClassN("calls", len(calls))
	if errs > 0 {
		x.NonTrivial()
	}
	return nil
}

var propC20Kit = Register(&Prop{ID: "C20", Sub: "kit", Gen: genC20Kit, Run: runC20Kit})

func TestProp_C20_kit(t *testing.T) { propC20Kit.Check(t) }

// ---------------------------------------------------------------- driver level

func genC20Driver(t *rapid.T) bson.D {
	ids := []interface{}{int32(1), bson.D{{Key: "x", Value: int32(1)}}, bson.A{int32(1)}, gen.HostileValue(1).Draw(t, "hid"), gen.OID1, bson.D{}, nil, ""}
	docs := bson.A{}
	for i, n := 0, rapid.IntRange(1, 3).Draw(t, "nd"); i < n; i++ {
		d := gen.HostileDoc(2).Draw(t, "doc")
		if rapid.IntRange(0, 4).Draw(t, "withid") > 0 {
			d = append(bson.D{{Key: "_id", Value: rapid.SampledFrom(ids).Draw(t, "id")}}, d...)
		}
		docs = append(docs, d)
	}
	update := gen.HostileUpdate().Draw(t, "update")
	if rapid.IntRange(0, 999).Draw(t, "idupd")%8 == 3 {
		// updates aimed at the document id
		update = rapid.SampledFrom([]bson.D{
			{{Key: "$unset", Value: bson.D{{Key: "_id", Value: ""}}}},
			{{Key: "$rename", Value: bson.D{{Key: "_id", Value: "x"}}}},
			{{Key: "$rename", Value: bson.D{{Key: "a", Value: "_id"}}}},
			{{Key: "$set", Value: bson.D{{Key: "_id", Value: bson.D{}}}}},
			{{Key: "$set", Value: bson.D{{Key: "_id.x", Value: int32(1)}}}},
			{{Key: "$unset", Value: bson.D{{Key: "_id.x", Value: ""}}}},
			{{Key: "$inc", Value: bson.D{{Key: "_id", Value: int32(0)}}}},
			{{Key: "$push", Value: bson.D{{Key: "_id", Value: int32(1)}}}},
			{{Key: "$pop", Value: bson.D{{Key: "_id", Value: int32(1)}}}},
		}).Draw(t, "idupdate")
	}
	// a filter aimed at the fields of the listing documents
	listFilter := bson.D{}
	for i, n := 0, rapid.IntRange(1, 2).Draw(t, "nlf"); i < n; i++ {
		k := rapid.SampledFrom([]string{"name", "sizeOnDisk", "empty", "type", "options", "info", "info.readOnly", "info.uuid", "idIndex", "idIndex.v", "idIndex.key", "idIndex.key._id", "idIndex.name", "idIndex.namespace"}).Draw(t, "lfk")
		var v interface{}
		switch rapid.IntRange(0, 2).Draw(t, "lfv") {
		case 0:
			v = gen.HostileValue(1).Draw(t, "lfval")
		case 1:
			v = bson.D{gen.NearValidExpr().Draw(t, "lfexpr")}
		default:
			v = bson.D{{Key: rapid.SampledFrom([]string{"$gte", "$lt", "$ne", "$in", "$type", "$mod", "$bitsAllSet", "$exists"}).Draw(t, "lfop"), Value: rapid.SampledFrom([]interface{}{int32(0), int64(2), float64(1), "x", bson.A{int32(0), int32(2)}, bson.A{int32(2), int32(0)}, true, "number"}).Draw(t, "lfarg")}}
		}
		listFilter = append(listFilter, bson.E{Key: k, Value: v})
	}
	return bson.D{
		{Key: "docs", Value: docs},
		{Key: "listFilter", Value: listFilter},
		{Key: "filter", Value: gen.HostileFilter(2).Draw(t, "filter")},
		{Key: "update", Value: update},
		{Key: "afs", Value: bson.A{gen.HostileFilter(1).Draw(t, "af1")}},
		{Key: "proj", Value: gen.HostileProjection().Draw(t, "proj")},
		{Key: "sort", Value: gen.HostileSort().Draw(t, "sort")},
		{Key: "field", Value: rapid.SampledFrom(gen.HostilePaths[:len(gen.HostilePaths)-0]).Draw(t, "field")},
		{Key: "repl", Value: gen.HostileDoc(2).Draw(t, "repl")},
		{Key: "partial", Value: gen.HostileFilter(1).Draw(t, "partial")},
		{Key: "upsert", Value: rapid.Bool().Draw(t, "upsert")},
	}
}

func runC20Driver(c bson.D, x *Ctx) error {
	env, e := openMem()
	if e != nil {
		return fmt.Errorf("harness: %v", e)
	}
	defer env.close()
	ctx := context.Background()
	coll := env.coll("d1.c1")
	filter, update, proj, srt := asD(getD(c, "filter")), asD(getD(c, "update")), asD(getD(c, "proj")), asD(getD(c, "sort"))
	repl, partial := asD(getD(c, "repl")), asD(getD(c, "partial"))
	field := asS(getD(c, "field"))
	upsert := asB(getD(c, "upsert"))
	afs := options.ArrayFilters{Filters: toIfaces(asA(fresh(getD(c, "afs"))))}
	var docs []interface{}
	for _, d := range asA(getD(c, "docs")) {
		docs = append(docs, freshD(asD(d)))
	}
	errs, ncalls := 0, 0
	var firstPanic string
	run := func(name string, f func() error) {
		ncalls++
		o := guarded(name, f)
		if o.panic != "" && firstPanic == "" {
			firstPanic = o.panic
		}
		if o.err != nil {
			errs++
		}
		// the engine must still serve a plain write
		po := guarded("probe after "+name, func() error {
			pctx, cancel := context.WithTimeout(ctx, 5*time.Second)
			defer cancel()
			_, err := env.coll("probe.p").InsertOne(pctx, bson.D{{Key: "n", Value: int32(ncalls)}})
			return err
		})
		if po.panic != "" && firstPanic == "" {
			firstPanic = po.panic
		}
		if po.err != nil && firstPanic == "" {
			firstPanic = fmt.Sprintf("after %s the engine cannot serve a plain insert: %v", name, po.err)
		}
	}
	err := withWatchdog(func() error {
		run("InsertMany", func() error { _, err := coll.InsertMany(ctx, docs, options.InsertMany().SetOrdered(false)); return err })
		run("Find", func() error {
			cur, err := coll.Find(ctx, freshD(filter), options.Find().SetSort(freshD(srt)).SetProjection(freshD(proj)).SetSkip(1).SetLimit(2))
			if err != nil {
				return err
			}
			var out []bson.M
			return cur.All(ctx, &out)
		})
		run("FindOne", func() error {
			var d bson.D
			return coll.FindOne(ctx, freshD(filter), options.FindOne().SetProjection(freshD(proj))).Decode(&d)
		})
		run("CountDocuments", func() error { _, err := coll.CountDocuments(ctx, freshD(filter)); return err })
		if field != "" {
			run("Distinct", func() error { _, err := coll.Distinct(ctx, field, freshD(filter)); return err })
		}
		run("CreateIndex", func() error {
			_, err := coll.Indexes().CreateOne(ctx, mongo.IndexModel{Keys: freshD(srt), Options: options.Index().SetUnique(upsert).SetPartialFilterExpression(freshD(partial))})
			return err
		})
		run("UpdateMany", func() error {
			_, err := coll.UpdateMany(ctx, freshD(filter), freshD(update), options.Update().SetUpsert(upsert).SetArrayFilters(afs))
			return err
		})
		run("UpdateOne({})", func() error {
			_, err := coll.UpdateOne(ctx, bson.D{}, freshD(update), options.Update().SetArrayFilters(afs))
			return err
		})
		run("ReplaceOne", func() error {
			_, err := coll.ReplaceOne(ctx, freshD(filter), freshD(repl), options.Replace().SetUpsert(upsert))
			return err
		})
		run("ReplaceOne({})", func() error { _, err := coll.ReplaceOne(ctx, bson.D{}, freshD(repl)); return err })
		run("FindOneAndUpdate", func() error {
			var d bson.D
			return coll.FindOneAndUpdate(ctx, freshD(filter), freshD(update), options.FindOneAndUpdate().SetSort(freshD(srt)).SetProjection(freshD(proj)).SetUpsert(upsert).SetReturnDocument(options.After)).Decode(&d)
		})
		run("BulkWrite", func() error {
			_, err := coll.BulkWrite(ctx, []mongo.WriteModel{
				mongo.NewUpdateManyModel().SetFilter(freshD(filter)).SetUpdate(freshD(update)),
				mongo.NewReplaceOneModel().SetFilter(bson.D{}).SetReplacement(freshD(repl)),
				mongo.NewDeleteOneModel().SetFilter(freshD(filter)),
			}, options.BulkWrite().SetOrdered(false))
			return err
		})
		run("BulkWrite(ordered)", func() error {
			// well-formed items around the generated ones: an ordered bulk
			// stops at the first failing item
			_, err := coll.BulkWrite(ctx, []mongo.WriteModel{
				mongo.NewInsertOneModel().SetDocument(bson.D{{Key: "_id", Value: "bulk-1"}}),
				mongo.NewUpdateManyModel().SetFilter(freshD(filter)).SetUpdate(freshD(update)).SetUpsert(upsert),
				mongo.NewInsertOneModel().SetDocument(bson.D{{Key: "_id", Value: "bulk-1"}}),
				mongo.NewReplaceOneModel().SetFilter(bson.D{}).SetReplacement(freshD(repl)),
				mongo.NewDeleteManyModel().SetFilter(freshD(filter)),
				mongo.NewInsertOneModel().SetDocument(bson.D{{Key: "_id", Value: "bulk-2"}}),
			}, options.BulkWrite().SetOrdered(true))
			return err
		})
		run("InsertMany(ordered)", func() error {
			_, err := coll.InsertMany(ctx, append(append([]interface{}{bson.D{{Key: "_id", Value: "im-1"}}}, docs...), bson.D{{Key: "_id", Value: "im-1"}}, bson.D{{Key: "_id", Value: "im-2"}}), options.InsertMany().SetOrdered(true))
			return err
		})
		// the listings accept filters too; theirs run over generated documents
		// with the fields name / sizeOnDisk / empty and name / type / options /
		// info / idIndex
		lf := asD(getD(c, "listFilter"))
		run("ListDatabases", func() error { _, err := env.client.ListDatabases(ctx, freshD(lf)); return err })
		run("ListDatabaseNames", func() error { _, err := env.client.ListDatabaseNames(ctx, freshD(filter)); return err })
		run("ListCollections", func() error {
			cur, err := env.client.Database("d1").ListCollections(ctx, freshD(lf))
			if err != nil {
				return err
			}
			var out []bson.M
			return cur.All(ctx, &out)
		})
		run("ListCollectionNames", func() error { _, err := env.client.Database("d1").ListCollectionNames(ctx, freshD(filter)); return err })
		// replace-style upserts whose filter and replacement both carry a
		// document, array or binary _id (equal, and different)
		oddIDs := []interface{}{
			bson.D{{Key: "x", Value: int32(1)}, {Key: "y", Value: bson.A{int32(1)}}},
			bson.A{int32(1), "a"},
			primitive.Binary{Subtype: 4, Data: []byte{1, 2, 3, 4, 5, 6, 7, 8, 9, 10, 11, 12, 13, 14, 15, 16}},
			bson.D{{Key: "a", Value: bson.A{bson.D{}}}},
			bson.D{},
		}
		for k, id := range oddIDs {
			id, other := id, oddIDs[(k+1)%len(oddIDs)]
			run("ReplaceOne(upsert, composite _id)", func() error {
				_, err := coll.ReplaceOne(ctx, bson.D{{Key: "_id", Value: fresh(id)}}, bson.D{{Key: "_id", Value: fresh(id)}, {Key: "v", Value: int32(k)}}, options.Replace().SetUpsert(true))
				return err
			})
			run("ReplaceOne(upsert, different composite _id)", func() error {
				_, err := coll.ReplaceOne(ctx, bson.D{{Key: "_id", Value: fresh(other)}, {Key: "nomatch", Value: int32(k)}}, bson.D{{Key: "_id", Value: fresh(id)}, {Key: "v", Value: int32(k)}}, options.Replace().SetUpsert(true))
				return err
			})
			run("FindOneAndReplace(upsert, composite _id)", func() error {
				var d bson.D
				return coll.FindOneAndReplace(ctx, bson.D{{Key: "_id", Value: fresh(id)}, {Key: "nomatch", Value: int32(k)}}, bson.D{{Key: "_id", Value: fresh(id)}, {Key: "w", Value: int32(k)}}, options.FindOneAndReplace().SetUpsert(true)).Decode(&d)
			})
			run("BulkWrite(replace upsert, composite _id)", func() error {
				_, err := coll.BulkWrite(ctx, []mongo.WriteModel{mongo.NewReplaceOneModel().SetFilter(bson.D{{Key: "_id", Value: fresh(id)}, {Key: "nomatch", Value: int32(k + 10)}}).SetReplacement(bson.D{{Key: "_id", Value: fresh(id)}}).SetUpsert(true)})
				return err
			})
		}
		run("DeleteMany", func() error { _, err := coll.DeleteMany(ctx, freshD(filter)); return err })
		run("FindOneAndDelete", func() error {
			var d bson.D
			return coll.FindOneAndDelete(ctx, bson.D{}, options.FindOneAndDelete().SetSort(freshD(srt)).SetProjection(freshD(proj))).Decode(&d)
		})
		return nil
	})
	if err != nil {
		return err
	}
	if firstPanic != "" {
		return fmt.Errorf("%s", firstPanic)
	}
	x.Rec.ClassN("calls-returning-error", errs)
	x.Rec.ClassN("calls", ncalls)
	if errs > 0 {
		x.NonTrivial()
	}
	return nil
}

var propC20Driver = Register(&Prop{ID: "C20", Sub: "driver", Gen: genC20Driver, Run: runC20Driver})

func TestProp_C20_driver(t *testing.T) { propC20Driver.Check(t) }
