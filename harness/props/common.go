// Package props holds one executable property (or family of sub-properties)
// per listed property C01..C20. Every property has the same shape: a rapid
// generator producing a *case* (a BSON-compatible document, so that it can be
// serialised to canonical Extended JSON and replayed without the library) and
// a Run function holding the oracle.
package props

import (
	"encoding/json"
	"fmt"
	"os"
	"runtime/debug"
	"strings"
	"sync"
	"testing"

	"go.mongodb.org/mongo-driver/bson"
	"pgregory.net/rapid"

	"verifharness/stats"
)

// Ctx is handed to Run: it classifies the case and records known-finding
// exclusions.
type Ctx struct {
	Rec *stats.Rec
	// NoExclude disables the known-finding predicates (replay of a listed
	// finding must show the violation).
	NoExclude bool
	nt        bool
}

// Class counts a class label.
func (c *Ctx) Class(name string) { c.Rec.Class(name) }

// NonTrivial marks the current case as non-trivial by the property's rule.
func (c *Ctx) NonTrivial() { c.nt = true }

// Known reports whether a discrepancy of the named known-finding class should
// be excluded (and counts it). In replay mode nothing is excluded.
func (c *Ctx) Known(class string) bool {
	if c.NoExclude {
		return false
	}
	if !knownOpen[class] {
		return false
	}
	c.Rec.Exclude(class)
	return true
}

// Prop is a registered sub-property.
type Prop struct {
	ID  string // C01..C20
	Sub string // sub-check name
	Gen func(t *rapid.T) bson.D
	Run func(c bson.D, x *Ctx) error
	// Live, when set, interleaves drawing and executing (stateful
	// generation): it returns the case executed so far, which is what gets
	// recorded for replay through Run.
	Live func(t *rapid.T, x *Ctx) (bson.D, error)
}

var (
	regMu    sync.Mutex
	registry = map[string]*Prop{}
)

// Register adds a property to the registry.
func Register(p *Prop) *Prop {
	regMu.Lock()
	defer regMu.Unlock()
	registry[p.ID+"/"+p.Sub] = p
	return p
}

// safeRun executes Run and converts unexpected panics of the *harness or the
// library* into errors (properties that care about panics handle them closer to
// the call; anything escaping to here is still a failure, never silently ok).
func (p *Prop) safeRun(c bson.D, x *Ctx) (err error) {
	defer func() {
		if r := recover(); r != nil {
			err = fmt.Errorf("panic escaped the property: %v\n%s", r, trimStack(debug.Stack()))
		}
	}()
	return p.Run(c, x)
}

func (p *Prop) safeLive(rt *rapid.T, x *Ctx) (c bson.D, err error) {
	defer func() {
		if r := recover(); r != nil {
			// rapid uses panics for control flow (invalid data / stop test)
			if isRapidPanic(r) {
				panic(r)
			}
			err = fmt.Errorf("panic escaped the property: %v\n%s", r, trimStack(debug.Stack()))
		}
	}()
	return p.Live(rt, x)
}

func isRapidPanic(r interface{}) bool {
	s := fmt.Sprintf("%T", r)
	return strings.HasPrefix(s, "rapid.") || strings.HasPrefix(s, "*rapid.")
}

func trimStack(b []byte) string {
	s := string(b)
	lines := strings.Split(s, "\n")
	if len(lines) > 40 {
		lines = lines[:40]
	}
	return strings.Join(lines, "\n")
}

// Check runs the property under rapid.
func (p *Prop) Check(t *testing.T) {
	rec := stats.For(p.ID, p.Sub)
	rapid.Check(t, func(rt *rapid.T) {
		x := &Ctx{Rec: rec}
		var c bson.D
		var err error
		if p.Live != nil {
			rec.Eval()
			c, err = p.safeLive(rt, x)
		} else {
			c = p.Gen(rt)
			rec.Eval()
			err = p.safeRun(c, x)
		}
		if err != nil {
			rec.Fail(stats.ExtJSON(c), err.Error())
			rt.Fatalf("%s/%s violated: %v", p.ID, p.Sub, err)
		}
		if x.nt {
			rec.NonTrivial(stats.ExtJSON(c))
		}
	})
}

// Fuzz runs the property under Go's native coverage-guided fuzzer: the
// fuzzer's bytes are rapid's source of randomness, so generators, oracle and
// replay format are the ones of Check. A failing execution writes the decoded
// case like Check does (the last one written is the fuzzer's minimised input).
func (p *Prop) Fuzz(f *testing.F) {
	rec := stats.For(p.ID, p.Sub+"-fuzz")
	f.Fuzz(rapid.MakeFuzz(func(rt *rapid.T) {
		x := &Ctx{Rec: rec}
		var c bson.D
		var err error
		if p.Live != nil {
			c, err = p.safeLive(rt, x)
		} else {
			c = p.Gen(rt)
			err = p.safeRun(c, x)
		}
		if err != nil {
			frec := stats.For(p.ID, p.Sub)
			frec.Fail(stats.ExtJSON(c), err.Error())
			rt.Fatalf("%s/%s violated: %v", p.ID, p.Sub, err)
		}
	}))
}

// replayFile is the on-disk replay format.
type replayFile struct {
	Property string          `json:"property"`
	Sub      string          `json:"sub"`
	Message  string          `json:"message"`
	Case     json.RawMessage `json:"case"`
}

// ReplayOne re-executes a saved case without rapid.
func ReplayOne(path string) (prop string, err error, loadErr error) {
	b, e := os.ReadFile(path)
	if e != nil {
		return "", nil, e
	}
	var rf replayFile
	if e := json.Unmarshal(b, &rf); e != nil {
		return "", nil, e
	}
	regMu.Lock()
	p := registry[rf.Property+"/"+rf.Sub]
	regMu.Unlock()
	if p == nil {
		return rf.Property, nil, fmt.Errorf("no registered property %s/%s", rf.Property, rf.Sub)
	}
	var c bson.D
	if e := bson.UnmarshalExtJSON(rf.Case, true, &c); e != nil {
		return rf.Property, nil, e
	}
	x := &Ctx{Rec: stats.For(rf.Property, "replay"), NoExclude: true}
	return rf.Property, p.safeRun(c, x), nil
}

// helpers over cases -------------------------------------------------------

func getD(c bson.D, k string) interface{} {
	for _, e := range c {
		if e.Key == k {
			return e.Value
		}
	}
	return nil
}

func asD(v interface{}) bson.D {
	if d, ok := v.(bson.D); ok {
		return d
	}
	return nil
}

func asA(v interface{}) bson.A {
	if a, ok := v.(bson.A); ok {
		return a
	}
	return nil
}

func asS(v interface{}) string {
	s, _ := v.(string)
	return s
}

func asI(v interface{}) int {
	switch n := v.(type) {
	case int32:
		return int(n)
	case int64:
		return int(n)
	case float64:
		return int(n)
	}
	return 0
}

func asB(v interface{}) bool {
	b, _ := v.(bool)
	return b
}

// deepCopy copies a BSON-compatible value (documents, arrays; scalars by value,
// binary payloads copied).
func deepCopy(v interface{}) interface{} {
	switch x := v.(type) {
	case bson.D:
		out := make(bson.D, len(x))
		for i, e := range x {
			out[i] = bson.E{Key: e.Key, Value: deepCopy(e.Value)}
		}
		return out
	case bson.A:
		out := make(bson.A, len(x))
		for i, e := range x {
			out[i] = deepCopy(e)
		}
		return out
	}
	return v
}

func copyD(d bson.D) bson.D { return deepCopy(d).(bson.D) }

// marshal returns the BSON bytes of a document (panics on harness bugs).
func marshal(d interface{}) []byte {
	b, err := bson.Marshal(d)
	if err != nil {
		panic(fmt.Sprintf("harness: cannot marshal %T: %v", d, err))
	}
	return b
}

func sign(i int) int {
	if i < 0 {
		return -1
	} else if i > 0 {
		return 1
	}
	return 0
}

func show(v interface{}) string {
	return string(stats.ExtJSON(bson.D{{Key: "v", Value: v}}))
}
