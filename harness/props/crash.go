package props

import (
	"context"
	"crypto/sha1"
	"encoding/json"
	"errors"
	"fmt"
	"os"
	"runtime"
	"strings"
	"time"

	"github.com/256dpi/lungo"
	"go.mongodb.org/mongo-driver/bson"
	"go.mongodb.org/mongo-driver/mongo"
	"go.mongodb.org/mongo-driver/mongo/options"
)

// Crash testing support (C05). A *program* is a list of commits; every commit
// is one engine commit (a WithTransaction over several collections, an index
// build, a delete ...). The same code applies a program in the parent (to
// obtain the reference states S_0..S_n) and in the child process that is
// killed / fault-injected under strace.

// CrashStep is one operation inside a commit.
type CrashStep struct {
	Kind    string `json:"kind"` // insert | update | delete | index
	NS      string `json:"ns"`
	IDs     []int  `json:"ids,omitempty"`
	Payload int    `json:"payload,omitempty"` // bytes of filler per document
	Field   string `json:"field,omitempty"`
	Unique  bool   `json:"unique,omitempty"`
}

// CrashCommit is one commit.
type CrashCommit struct {
	Steps []CrashStep `json:"steps"`
}

// CrashProgram is a commit history.
type CrashProgram struct {
	Commits []CrashCommit `json:"commits"`
}

func filler(n, salt int) string {
	b := make([]byte, n)
	x := uint32(salt)*2654435761 + 1
	for i := range b {
		x ^= x << 13
		x ^= x >> 17
		x ^= x << 5
		b[i] = 'a' + byte(x%26)
	}
	return string(b)
}

func crashApplyStep(ctx context.Context, client lungo.IClient, s CrashStep, commit int) error {
	db, c := splitNS(s.NS)
	coll := client.Database(db).Collection(c)
	switch s.Kind {
	case "insert":
		var docs []interface{}
		for _, id := range s.IDs {
			docs = append(docs, bson.D{{Key: "_id", Value: int32(id)}, {Key: "c", Value: int32(commit)}, {Key: "u", Value: int32(id*7 + 1)}, {Key: "pad", Value: filler(s.Payload, id)}})
		}
		if len(docs) == 0 {
			return nil
		}
		_, err := coll.InsertMany(ctx, docs, options.InsertMany().SetOrdered(false))
		if err != nil && !lungo.IsUniquenessError(err) {
			return err
		}
		return nil
	case "update":
		_, err := coll.UpdateMany(ctx, bson.D{}, bson.D{{Key: "$inc", Value: bson.D{{Key: "n", Value: int32(1)}}}, {Key: "$set", Value: bson.D{{Key: "last", Value: int32(commit)}}}})
		return err
	case "delete":
		var ids bson.A
		for _, id := range s.IDs {
			ids = append(ids, int32(id))
		}
		_, err := coll.DeleteMany(ctx, bson.D{{Key: "_id", Value: bson.D{{Key: "$in", Value: ids}}}})
		return err
	case "index":
		_, err := coll.Indexes().CreateOne(ctx, mongo.IndexModel{Keys: bson.D{{Key: s.Field, Value: int32(1)}}, Options: options.Index().SetUnique(s.Unique)})
		return err
	}
	return fmt.Errorf("unknown crash step %q", s.Kind)
}

// CrashApplyCommit performs commit i as a single engine commit.
func CrashApplyCommit(client lungo.IClient, cm CrashCommit, i int) error {
	ctx := context.Background()
	if len(cm.Steps) == 1 && cm.Steps[0].Kind == "index" {
		return crashApplyStep(ctx, client, cm.Steps[0], i)
	}
	sess, err := client.StartSession()
	if err != nil {
		return err
	}
	defer sess.EndSession(ctx)
	_, err = sess.WithTransaction(ctx, func(sc lungo.ISessionContext) (interface{}, error) {
		for _, s := range cm.Steps {
			if s.Kind == "index" {
				continue
			}
			if err := crashApplyStep(sc, client, s, i); err != nil {
				return nil, err
			}
		}
		return nil, nil
	})
	return err
}

// CrashApplyCommitManual performs commit i on a long-lived session with the
// manual transaction API (StartTransaction ... CommitTransaction). A failed
// commit is NOT followed by AbortTransaction: the session must be usable for
// the next transaction all the same.
func CrashApplyCommitManual(client lungo.IClient, sess lungo.ISession, cm CrashCommit, i int) error {
	ctx := context.Background()
	if len(cm.Steps) == 1 && cm.Steps[0].Kind == "index" {
		return crashApplyStep(ctx, client, cm.Steps[0], i)
	}
	if err := sess.StartTransaction(); err != nil {
		return fmt.Errorf("StartTransaction: %w", err)
	}
	var stepErr error
	err := lungo.WithSession(ctx, sess, func(sc lungo.ISessionContext) error {
		for _, s := range cm.Steps {
			if s.Kind == "index" {
				continue
			}
			if err := crashApplyStep(sc, client, s, i); err != nil {
				stepErr = err
				return nil
			}
		}
		return nil
	})
	if err != nil {
		return err
	}
	if stepErr != nil {
		_ = sess.AbortTransaction(ctx)
		return stepErr
	}
	return sess.CommitTransaction(ctx)
}

// CrashStateHash hashes the normalised dump of a catalog.
func CrashStateHash(cat *lungo.Catalog) string {
	return fmt.Sprintf("%x", sha1.Sum([]byte(catalogDump(cat, true))))
}

// CrashChildMain is the body of cmd/crashchild: apply the program on a file
// store and journal progress on stdout (unbuffered).
func CrashChildMain(args []string) int {
	// strace counts the ordinal of an injected syscall per thread: keep every
	// file syscall of the history on the main thread
	runtime.LockOSThread()
	if len(args) != 2 {
		fmt.Fprintln(os.Stderr, "usage: crashchild <store file> <program.json>")
		return 2
	}
	b, err := os.ReadFile(args[1])
	if err != nil {
		fmt.Fprintln(os.Stderr, err)
		return 2
	}
	var prog CrashProgram
	if err := json.Unmarshal(b, &prog); err != nil {
		fmt.Fprintln(os.Stderr, err)
		return 2
	}
	say := func(format string, a ...interface{}) {
		_, _ = os.Stdout.WriteString(fmt.Sprintf(format, a...) + "\n")
	}
	client, engine, err := lungo.Open(context.Background(), lungo.Options{Store: lungo.NewFileStore(args[0], 0o644), ExpireInterval: 24 * time.Hour})
	if err != nil {
		say("OPENERR %v", err)
		return 3
	}
	say("STATE 0 %s", CrashStateHash(engine.Catalog()))
	for i, cm := range prog.Commits {
		say("BEGIN %d", i+1)
		err := CrashApplyCommit(client, cm, i+1)
		if err != nil {
			say("DONE %d err %s", i+1, strings.ReplaceAll(err.Error(), "\n", " "))
		} else {
			say("DONE %d ok", i+1)
		}
		say("STATE %d %s", i+1, CrashStateHash(engine.Catalog()))
	}
	engine.Close()
	say("END")
	return 0
}

// failingStore fails chosen Store calls, optionally after persisting.
type failingStore struct {
	inner lungo.Store
	calls int
	plan  map[int]string // call number (1-based) -> "fail" | "failAfterPersist"
}

func (f *failingStore) Load() (*lungo.Catalog, error) { return f.inner.Load() }
func (f *failingStore) Store(c *lungo.Catalog) error {
	f.calls++
	switch f.plan[f.calls] {
	case "fail":
		return errors.New("injected store failure")
	case "failAfterPersist":
		if err := f.inner.Store(c); err != nil {
			return err
		}
		return errors.New("injected store failure after persisting")
	}
	return f.inner.Store(c)
}
