package props

import "testing"

// Native fuzz targets (thorough tier only; see ./check). Each drives an
// existing property through rapid.MakeFuzz.

func FuzzC10Agree(f *testing.F)   { propC10Agree.Fuzz(f) }
func FuzzC10Laws(f *testing.F)    { propC10Laws.Fuzz(f) }
func FuzzC10Schema(f *testing.F)  { propC10Schema.Fuzz(f) }
func FuzzC11Single(f *testing.F)  { propC11Single.Fuzz(f) }
func FuzzC11Multi(f *testing.F)   { propC11Multi.Fuzz(f) }
func FuzzC12Order(f *testing.F)   { propC12.Fuzz(f) }
func FuzzC14Project(f *testing.F) { propC14.Fuzz(f) }
func FuzzC20Kit(f *testing.F)     { propC20Kit.Fuzz(f) }
