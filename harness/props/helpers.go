package props

import (
	"bytes"
	"context"
	"strings"

	"github.com/256dpi/lungo"
	"go.mongodb.org/mongo-driver/bson"
	"go.mongodb.org/mongo-driver/mongo/options"
	"pgregory.net/rapid"

	"verifharness/gen"
)

// equalUpToFieldOrder compares two values ignoring the order of document
// fields (array order matters).
func equalUpToFieldOrder(a, b interface{}) bool {
	switch x := a.(type) {
	case bson.D:
		y, ok := b.(bson.D)
		if !ok || len(x) != len(y) {
			return false
		}
		for _, e := range x {
			found := false
			for _, f := range y {
				if f.Key == e.Key {
					if !equalUpToFieldOrder(e.Value, f.Value) {
						return false
					}
					found = true
					break
				}
			}
			if !found {
				return false
			}
		}
		return true
	case bson.A:
		y, ok := b.(bson.A)
		if !ok || len(x) != len(y) {
			return false
		}
		for i := range x {
			if !equalUpToFieldOrder(x[i], y[i]) {
				return false
			}
		}
		return true
	}
	return bytes.Equal(marshal(bson.D{{Key: "v", Value: a}}), marshal(bson.D{{Key: "v", Value: b}}))
}

func genUpdateDoc(t *rapid.T, cfg gen.Cfg, ops []string, maxOps int) bson.D {
	n := rapid.IntRange(1, maxOps).Draw(t, "nops")
	upd := bson.D{}
	used := map[string]bool{}
	var usedP []string
	conflicts := func(p string) bool {
		// MongoDB rejects updates whose paths are equal or prefix-related;
		// lungo only notices when both operators are effective, so such
		// updates are kept out (DESIGN.md 8.2)
		for _, q := range usedP {
			if p == q || strings.HasPrefix(p, q+".") || strings.HasPrefix(q, p+".") {
				return true
			}
		}
		return false
	}
	for i := 0; i < n; i++ {
		op := rapid.SampledFrom(ops).Draw(t, "op")
		if used[op] {
			continue
		}
		used[op] = true
		m := rapid.IntRange(1, 2).Draw(t, "npaths")
		fields := bson.D{}
		for j := 0; j < m; j++ {
			p := cfg.PathFrom(t, gen.UPaths)
			arg := cfg.UpdateArg(op).Draw(t, "arg")
			if conflicts(p) {
				continue
			}
			if op == "$rename" {
				to, _ := arg.(string)
				if conflicts(to) || p == to {
					continue
				}
				usedP = append(usedP, to)
			}
			usedP = append(usedP, p)
			fields = append(fields, bson.E{Key: p, Value: arg})
		}
		if len(fields) > 0 {
			upd = append(upd, bson.E{Key: op, Value: fields})
		}
	}
	if len(upd) == 0 {
		upd = bson.D{{Key: "$set", Value: bson.D{{Key: "q", Value: int32(1)}}}}
	}
	return upd
}

func dirOf(v interface{}) int {
	switch n := v.(type) {
	case int32:
		return int(n)
	case int64:
		return int(n)
	case float64:
		return int(n)
	}
	return 0
}

func findDocs(coll lungo.ICollection, filter interface{}, opts ...*options.FindOptions) ([]bson.D, error) {
	cur, err := coll.Find(context.Background(), filter, opts...)
	if err != nil {
		return nil, err
	}
	var out []bson.D
	if err := cur.All(context.Background(), &out); err != nil {
		return nil, err
	}
	return out, nil
}

func toDocs(a bson.A) []bson.D {
	var out []bson.D
	for _, v := range a {
		out = append(out, asD(v))
	}
	return out
}

func toFilters(a bson.A) []bson.D { return toDocs(a) }

// expectedDocDelta derives, from a call's own result, by how much the number
// of stored documents must have changed (ok=false: the result does not say,
// e.g. a find-and-modify that may or may not have upserted).
func expectedDocDelta(op string, res bson.D) (int64, bool) {
	ec := asS(getD(res, "err"))
	switch op {
	case "insertOne":
		if ec != "" {
			return 0, true
		}
		return 1, true
	case "insertMany":
		return int64(len(asA(getD(res, "ids")))), getD(res, "ids") != nil || ec == ""
	case "updateOne", "updateMany", "updateByID", "replaceOne":
		if ec != "" {
			return 0, true
		}
		return asI64(getD(res, "upserted")), true
	case "deleteOne", "deleteMany":
		if ec != "" {
			return 0, true
		}
		return -asI64(getD(res, "deleted")), true
	case "bulkWrite":
		if getD(res, "inserted") == nil {
			return 0, ec != ""
		}
		return asI64(getD(res, "inserted")) + asI64(getD(res, "upserted")) - asI64(getD(res, "deleted")), true
	case "find", "findOne", "count", "estCount", "distinct", "listIndexes", "createIndex", "createIndexes", "dropIndex", "dropIndexKey", "dropIndexes":
		return 0, true
	}
	return 0, false
}

// totalDocs counts the documents of all namespaces but the change log.
func totalDocs(cat *lungo.Catalog) int64 {
	var n int64
	for h, c := range cat.Namespaces {
		if h != lungo.Oplog {
			n += int64(len(c.Documents.List))
		}
	}
	return n
}
