package props

import (
	"context"
	"encoding/json"
	"fmt"
	"math"
	"os"
	"path/filepath"
	"sort"
	"strings"
	"time"

	"github.com/256dpi/lungo"
	"github.com/256dpi/lungo/mongokit"
	"go.mongodb.org/mongo-driver/bson"
	"go.mongodb.org/mongo-driver/bson/primitive"
	"go.mongodb.org/mongo-driver/mongo"
	"go.mongodb.org/mongo-driver/mongo/options"

	"verifharness/gen"
)

// A history is a list of steps; every step is a BSON document {op, ns, ...}.
// execStep performs one step against lungo's driver API and returns a
// normalised result document, so that histories can be recorded, replayed and
// compared with a model.

type hEnv struct {
	client lungo.IClient
	engine *lungo.Engine
	// scribble: after every call overwrite the argument objects and the
	// returned objects (C17); the executor always works on private copies of
	// the step data, so this never disturbs the recorded history.
	scribble bool
	// argViolation is set by execStep when a call modified its argument.
	argViolation string
	// afterCall runs right after the lungo call returned and before anything
	// is scribbled over.
	afterCall func()
	// reopen closes the engine and opens a new one on the same store (file
	// backed environments only).
	// ctx, when set, replaces context.Background() for the calls (session
	// contexts, deadlines).
	ctx    context.Context
	reopen func() error
	// age closes the engine, rewrites the stored change log so that every
	// event is two hours older, and reopens with tight retention options, so
	// that the next commits truncate the log.
	age func() error
	// ageMinSize overrides the number of events kept after ageing (default 2)
	ageMinSize int
	// litter drops a stale "<store file>.tmp" (file-backed environments only)
	litter func() error
	// loadFile loads the store file of a file-backed environment with a
	// store object of its own
	loadFile func() (*lungo.Catalog, error)
	cleanup  func()
	probeSeq int
	// store, when set, can be told to fail the next Store call; a step
	// carrying failStore: true arms it for exactly that call. storeFailed
	// tells the oracles whether the last step hit the injected failure.
	store       *toggleStore
	storeFailed bool
}

// toggleStore is a memory store whose next Store call can be made to fail.
type toggleStore struct {
	inner    lungo.Store
	failNext bool
	fails    int
}

func (s *toggleStore) Load() (*lungo.Catalog, error) { return s.inner.Load() }
func (s *toggleStore) Store(c *lungo.Catalog) error {
	if s.failNext {
		s.failNext = false
		s.fails++
		return fmt.Errorf("injected store failure")
	}
	return s.inner.Store(c)
}

func openMem() (*hEnv, error) {
	st := &toggleStore{inner: lungo.NewMemoryStore()}
	client, engine, err := lungo.Open(context.Background(), lungo.Options{Store: st, ExpireInterval: 24 * time.Hour})
	if err != nil {
		return nil, err
	}
	return &hEnv{client: client, engine: engine, store: st}, nil
}

func (h *hEnv) close() {
	if h.engine != nil {
		// a shutdown that hangs (a check has reported a stalled stream or
		// transaction before) must not wedge the run: it is abandoned
		done := make(chan struct{})
		eng := h.engine
		go func() { eng.Close(); close(done) }()
		select {
		case <-done:
		case <-time.After(10 * time.Second):
		}
	}
	if h.cleanup != nil {
		h.cleanup()
	}
}

// openFile opens an engine on a fresh single-file store.
func openFile() (*hEnv, error) {
	base := os.Getenv("VERIF_WORK")
	if base == "" {
		base = os.TempDir()
	}
	dir, err := os.MkdirTemp(base, "c06-")
	if err != nil {
		return nil, err
	}
	path := filepath.Join(dir, "db.bson")
	h := &hEnv{cleanup: func() { _ = os.RemoveAll(dir) }}
	opts := lungo.Options{ExpireInterval: 24 * time.Hour}
	// one store value for the whole life of the environment: reopening loads
	// through the object that stored before (anything it keeps between loads
	// must not leak into the next one)
	fstore := lungo.NewFileStore(path, 0o644)
	open := func() error {
		o := opts
		o.Store = fstore
		client, engine, err := lungo.Open(context.Background(), o)
		if err != nil {
			return err
		}
		h.client, h.engine = client, engine
		return nil
	}
	if err := open(); err != nil {
		h.cleanup()
		return nil, err
	}
	h.reopen = func() error {
		h.engine.Close()
		h.engine = nil
		return open()
	}
	h.loadFile = func() (*lungo.Catalog, error) { return lungo.NewFileStore(path, 0o644).Load() }
	h.litter = func() error {
		junk := make([]byte, 1<<20)
		for i := range junk {
			junk[i] = 0xA5
		}
		return os.WriteFile(path+".tmp", junk, 0o644)
	}
	h.age = func() error {
		h.engine.Close()
		h.engine = nil
		store := lungo.NewFileStore(path, 0o644)
		cat, err := store.Load()
		if err != nil {
			return err
		}
		oplog := cat.Namespaces[lungo.Oplog]
		aged := mongokit.NewCollection(false)
		for _, ev := range oplog.Documents.List {
			nd := deepCopyBin(*ev).(bson.D)
			for i := range nd {
				switch nd[i].Key {
				case "_id":
					id := asD(nd[i].Value)
					for j := range id {
						if ts, ok := id[j].Value.(primitive.Timestamp); ok && id[j].Key == "ts" {
							id[j].Value = primitive.Timestamp{T: ts.T - 7200, I: ts.I}
						}
					}
				case "clusterTime":
					if ts, ok := nd[i].Value.(primitive.Timestamp); ok {
						nd[i].Value = primitive.Timestamp{T: ts.T - 7200, I: ts.I}
					}
				}
			}
			if _, err := aged.Insert(&nd); err != nil {
				return err
			}
		}
		cat.Namespaces[lungo.Oplog] = aged
		if err := store.Store(cat); err != nil {
			return err
		}
		opts.MinOplogSize, opts.MaxOplogSize = 2, 1000
		if h.ageMinSize > 0 {
			opts.MinOplogSize = h.ageMinSize
		}
		opts.MinOplogAge, opts.MaxOplogAge = time.Second, time.Minute
		return open()
	}
	return h, nil
}

func splitNS(ns string) (string, string) {
	i := strings.Index(ns, ".")
	if i < 0 {
		return ns, ""
	}
	return ns[:i], ns[i+1:]
}

func (h *hEnv) coll(ns string) lungo.ICollection {
	db, c := splitNS(ns)
	return h.client.Database(db).Collection(c)
}

// errClass normalises an error.
func errClass(err error) string {
	if err == nil {
		return ""
	}
	if lungo.IsUniquenessError(err) {
		return "uniq"
	}
	return "other"
}

func optD(step bson.D, k string) bson.D {
	v := getD(step, k)
	if v == nil {
		return nil
	}
	return asD(v)
}

// fresh returns a private deep copy of step data handed to lungo, including
// binary payloads.
func fresh(v interface{}) interface{} {
	return deepCopyBin(v)
}

func freshD(d bson.D) bson.D {
	if d == nil {
		return nil
	}
	return deepCopyBin(d).(bson.D)
}

// callRecord remembers the argument objects of a call to check that the call
// did not modify them and to scribble over them afterwards.
type callRecord struct {
	args       []interface{}
	before     [][]byte
	opts       []interface{}
	optsBefore []string
}

func (c *callRecord) arg(v interface{}) interface{} {
	c.args = append(c.args, v)
	c.before = append(c.before, marshal(bson.D{{Key: "v", Value: v}}))
	return v
}

func (c *callRecord) argD(d bson.D) bson.D {
	if d == nil {
		return nil
	}
	c.arg(d)
	return d
}

// opt records an options object handed to the call (by pointer); its JSON
// rendering (pointer fields dereferenced) must be the same after the call.
func (c *callRecord) opt(o interface{}) {
	b, _ := json.Marshal(o)
	c.opts = append(c.opts, o)
	c.optsBefore = append(c.optsBefore, string(b))
}

func (c *callRecord) check() string {
	for i, o := range c.opts {
		if b, _ := json.Marshal(o); string(b) != c.optsBefore[i] {
			return fmt.Sprintf("the call modified the options object it was given: %s -> %s", c.optsBefore[i], b)
		}
	}
	for i, a := range c.args {
		if string(marshal(bson.D{{Key: "v", Value: a}})) != string(c.before[i]) {
			return fmt.Sprintf("the call modified its argument %s", show(a))
		}
	}
	return ""
}

func (c *callRecord) scribbleAll() {
	for _, a := range c.args {
		scribbleDeep(a)
	}
}

func toIfaces(a bson.A) []interface{} {
	out := make([]interface{}, len(a))
	for i, v := range a {
		out[i] = v
	}
	return out
}

func docsToA(docs []bson.D) bson.A {
	out := bson.A{}
	for _, d := range docs {
		out = append(out, d)
	}
	return out
}

// execStep runs one step. The returned document has "err" ("" | "uniq" |
// "other") plus call specific fields. A panic inside lungo is returned as a Go
// error (never expected).
func (h *hEnv) execStep(step bson.D) (res bson.D, perr error) {
	defer func() {
		if p := recover(); p != nil {
			perr = fmt.Errorf("step %s panicked: %v", show(step), p)
		}
	}()
	ctx := context.Background()
	if h.ctx != nil {
		ctx = h.ctx
	}
	op := asS(getD(step, "op"))
	ns := asS(getD(step, "ns"))
	h.storeFailed = false
	if h.store != nil && asB(getD(step, "failStore")) {
		before := h.store.fails
		h.store.failNext = true
		defer func() {
			h.store.failNext = false
			h.storeFailed = h.store.fails > before
		}()
	}
	rec := &callRecord{}
	var returned []interface{} // values handed back by lungo (for scribbling)
	finish := func(r bson.D) (bson.D, error) {
		if msg := rec.check(); msg != "" {
			h.argViolation = fmt.Sprintf("step %s: %s", show(step), msg)
		}
		if h.afterCall != nil {
			h.afterCall()
		}
		if h.scribble {
			rec.scribbleAll()
			for _, v := range returned {
				scribbleDeep(v)
			}
		}
		return r, nil
	}
	findOpts := func() (bson.D, bson.D, int, int) {
		return optD(step, "sort"), optD(step, "proj"), asI(getD(step, "skip")), asI(getD(step, "limit"))
	}
	switch op {
	case "watchProbe":
		// a change stream opened with a start time the caller owns: after
		// Watch returned the caller overwrites the timestamp and the options;
		// the stream must still deliver what it was opened for
		ts := primitive.Timestamp{T: 1, I: 0}
		opts := options.ChangeStream().SetStartAtOperationTime(&ts)
		pipeline := bson.A{}
		st, err := h.coll(ns).Watch(ctx, pipeline, opts)
		if err != nil {
			return finish(bson.D{{Key: "err", Value: errClass(err)}})
		}
		ts = primitive.Timestamp{T: math.MaxUint32, I: math.MaxUint32}
		*opts = options.ChangeStreamOptions{}
		id := fmt.Sprintf("wp-%d", h.probeSeq)
		h.probeSeq++
		_, ierr := h.coll(ns).InsertOne(ctx, bson.D{{Key: "_id", Value: id}})
		got := false
		if ierr == nil {
			for i := 0; i < 3 && !got; i++ {
				got = st.TryNext(ctx)
			}
			if !got && h.argViolation == "" {
				h.argViolation = fmt.Sprintf("a change stream opened with StartAtOperationTime(&ts) delivers nothing after the caller overwrote ts and the options (stream error: %v); the call kept the caller's pointer", st.Err())
			}
			// resume tokens handed out are the caller's: keeping one across
			// further calls, or overwriting one, affects nothing else
			if got {
				tok1 := st.ResumeToken()
				keep1 := append([]byte{}, tok1...)
				_, ierr2 := h.coll(ns).InsertOne(ctx, bson.D{{Key: "_id", Value: id + "-b"}})
				if ierr2 == nil && st.TryNext(ctx) {
					tok2 := st.ResumeToken()
					keep2 := append([]byte{}, tok2...)
					if string(tok1) != string(keep1) && h.argViolation == "" {
						h.argViolation = "a resume token handed out earlier changed when the stream advanced and ResumeToken was called again"
					}
					for i := range tok2 {
						tok2[i] = 0
					}
					if tok3 := st.ResumeToken(); string(tok3) != string(keep2) && h.argViolation == "" {
						h.argViolation = "overwriting a resume token handed out by the stream changed the token the stream returns afterwards"
					}
					if string(tok1) != string(keep1) && h.argViolation == "" {
						h.argViolation = "overwriting one resume token changed another one handed out earlier"
					}
				}
			}
		}
		_ = st.Close(ctx)
		return finish(bson.D{{Key: "err", Value: errClass(ierr)}, {Key: "id", Value: id}})
	case "expire":
		// one expiry pass, exactly as the engine's background loop does it
		txn, err := h.engine.Begin(nil, true)
		if err != nil {
			return finish(bson.D{{Key: "err", Value: errClass(err)}})
		}
		if err := txn.Expire(); err != nil {
			h.engine.Abort(txn)
			return finish(bson.D{{Key: "err", Value: errClass(err)}})
		}
		err = h.engine.Commit(txn)
		if err != nil {
			h.engine.Abort(txn)
		}
		return finish(bson.D{{Key: "err", Value: errClass(err)}})
	case "txnAborted":
		// engine-level write transaction that is abandoned: the work is done
		// on the transaction and then aborted, nothing may remain
		txn, err := h.engine.Begin(nil, true)
		if err != nil {
			return finish(bson.D{{Key: "err", Value: errClass(err)}})
		}
		db, c := splitNS(ns)
		handle := lungo.Handle{db, c}
		switch asS(getD(step, "what")) {
		case "dropColl":
			_ = txn.Drop(handle)
		case "dropDB":
			_ = txn.Drop(lungo.Handle{db, ""})
		case "create":
			_ = txn.Create(handle)
		case "deleteAll":
			_, _ = txn.Delete(handle, &bson.D{}, nil, 0, 0)
		case "expire":
			_ = txn.Expire()
		}
		h.engine.Abort(txn)
		return finish(bson.D{{Key: "err", Value: "aborted"}})
	case "litter":
		// what a crashed earlier write leaves behind: a temp file next to the
		// store file, longer than anything the next commits will write
		if h.litter != nil {
			if err := h.litter(); err != nil {
				return nil, fmt.Errorf("harness: %v", err)
			}
		}
		return bson.D{{Key: "err", Value: ""}}, nil
	case "age":
		if h.age == nil {
			return bson.D{{Key: "err", Value: ""}}, nil
		}
		if err := h.age(); err != nil {
			return nil, fmt.Errorf("ageing the stored change log failed: %v", err)
		}
		return bson.D{{Key: "err", Value: ""}}, nil
	case "reopen":
		if h.reopen == nil {
			return bson.D{{Key: "err", Value: ""}}, nil
		}
		if err := h.reopen(); err != nil {
			return nil, fmt.Errorf("closing and reopening the database failed: %v", err)
		}
		return bson.D{{Key: "err", Value: ""}}, nil
	case "insertOne":
		doc := rec.argD(freshD(asD(getD(step, "doc"))))
		r, err := h.coll(ns).InsertOne(ctx, doc)
		out := bson.D{{Key: "err", Value: errClass(err)}}
		if err == nil {
			out = append(out, bson.E{Key: "id", Value: deepCopyBin(r.InsertedID)})
			returned = append(returned, r.InsertedID)
		}
		return finish(out)
	case "insertMany":
		var docs []interface{}
		for _, d := range asA(getD(step, "docs")) {
			docs = append(docs, rec.argD(freshD(asD(d))))
		}
		r, err := h.coll(ns).InsertMany(ctx, docs, options.InsertMany().SetOrdered(asB(getD(step, "ordered"))))
		out := bson.D{{Key: "err", Value: errClass(err)}}
		if r != nil {
			out = append(out, bson.E{Key: "ids", Value: deepCopyBin(bson.A(r.InsertedIDs))})
			returned = append(returned, bson.A(r.InsertedIDs))
		}
		return finish(out)
	case "find":
		srt, proj, skip, limit := findOpts()
		fo := options.Find()
		if srt != nil {
			fo.SetSort(rec.argD(freshD(srt)))
		}
		if proj != nil {
			fo.SetProjection(rec.argD(freshD(proj)))
		}
		if skip > 0 {
			fo.SetSkip(int64(skip))
		}
		if limit > 0 {
			fo.SetLimit(int64(limit))
		}
		cur, err := h.coll(ns).Find(ctx, rec.argD(freshD(asD(getD(step, "filter")))), fo)
		out := bson.D{{Key: "err", Value: errClass(err)}}
		if err == nil {
			var docs []bson.D
			if e := cur.All(ctx, &docs); e != nil {
				return nil, fmt.Errorf("cursor.All failed: %v", e)
			}
			out = append(out, bson.E{Key: "docs", Value: deepCopyBin(docsToA(docs))})
			for _, d := range docs {
				returned = append(returned, d)
			}
		}
		return finish(out)
	case "findOne":
		srt, proj, skip, _ := findOpts()
		fo := options.FindOne()
		if srt != nil {
			fo.SetSort(rec.argD(freshD(srt)))
		}
		if proj != nil {
			fo.SetProjection(rec.argD(freshD(proj)))
		}
		if skip > 0 {
			fo.SetSkip(int64(skip))
		}
		d, err := h.decodeSingle(h.coll(ns).FindOne(ctx, rec.argD(freshD(asD(getD(step, "filter")))), fo))
		return finish(singleResult(d, err, &returned))
	case "count":
		co := options.Count()
		if s := asI(getD(step, "skip")); s > 0 {
			co.SetSkip(int64(s))
		}
		if l := asI(getD(step, "limit")); l > 0 {
			co.SetLimit(int64(l))
		}
		n, err := h.coll(ns).CountDocuments(ctx, rec.argD(freshD(asD(getD(step, "filter")))), co)
		return finish(bson.D{{Key: "err", Value: errClass(err)}, {Key: "n", Value: n}})
	case "estCount":
		n, err := h.coll(ns).EstimatedDocumentCount(ctx)
		return finish(bson.D{{Key: "err", Value: errClass(err)}, {Key: "n", Value: n}})
	case "distinct":
		vals, err := h.coll(ns).Distinct(ctx, asS(getD(step, "field")), rec.argD(freshD(asD(getD(step, "filter")))))
		out := bson.D{{Key: "err", Value: errClass(err)}}
		if err == nil {
			out = append(out, bson.E{Key: "values", Value: deepCopyBin(bson.A(vals))})
			returned = append(returned, bson.A(vals))
		}
		return finish(out)
	case "updateOne", "updateMany", "updateByID":
		uo := options.Update().SetUpsert(asB(getD(step, "upsert")))
		if af := asA(getD(step, "arrayFilters")); len(af) > 0 {
			uo.SetArrayFilters(options.ArrayFilters{Filters: toIfaces(rec.arg(fresh(af)).(bson.A))})
		}
		upd := rec.argD(freshD(asD(getD(step, "update"))))
		var r *mongo.UpdateResult
		var err error
		switch op {
		case "updateOne":
			r, err = h.coll(ns).UpdateOne(ctx, rec.argD(freshD(asD(getD(step, "filter")))), upd, uo)
		case "updateMany":
			r, err = h.coll(ns).UpdateMany(ctx, rec.argD(freshD(asD(getD(step, "filter")))), upd, uo)
		default:
			r, err = h.coll(ns).UpdateByID(ctx, rec.arg(fresh(getD(step, "id"))), upd, uo)
		}
		return finish(updateResult(r, err, &returned))
	case "replaceOne":
		r, err := h.coll(ns).ReplaceOne(ctx, rec.argD(freshD(asD(getD(step, "filter")))), rec.argD(freshD(asD(getD(step, "repl")))), options.Replace().SetUpsert(asB(getD(step, "upsert"))))
		return finish(updateResult(r, err, &returned))
	case "deleteOne":
		r, err := h.coll(ns).DeleteOne(ctx, rec.argD(freshD(asD(getD(step, "filter")))))
		return finish(deleteResult(r, err))
	case "deleteMany":
		r, err := h.coll(ns).DeleteMany(ctx, rec.argD(freshD(asD(getD(step, "filter")))))
		return finish(deleteResult(r, err))
	case "findOneAndDelete":
		srt, proj, _, _ := findOpts()
		fo := options.FindOneAndDelete()
		if srt != nil {
			fo.SetSort(rec.argD(freshD(srt)))
		}
		if proj != nil {
			fo.SetProjection(rec.argD(freshD(proj)))
		}
		d, err := h.decodeSingle(h.coll(ns).FindOneAndDelete(ctx, rec.argD(freshD(asD(getD(step, "filter")))), fo))
		return finish(singleResult(d, err, &returned))
	case "findOneAndReplace":
		srt, proj, _, _ := findOpts()
		fo := options.FindOneAndReplace().SetUpsert(asB(getD(step, "upsert")))
		if asB(getD(step, "after")) {
			fo.SetReturnDocument(options.After)
		}
		if srt != nil {
			fo.SetSort(rec.argD(freshD(srt)))
		}
		if proj != nil {
			fo.SetProjection(rec.argD(freshD(proj)))
		}
		d, err := h.decodeSingle(h.coll(ns).FindOneAndReplace(ctx, rec.argD(freshD(asD(getD(step, "filter")))), rec.argD(freshD(asD(getD(step, "repl")))), fo))
		return finish(singleResult(d, err, &returned))
	case "findOneAndUpdate":
		srt, proj, _, _ := findOpts()
		fo := options.FindOneAndUpdate().SetUpsert(asB(getD(step, "upsert")))
		if asB(getD(step, "after")) {
			fo.SetReturnDocument(options.After)
		}
		if srt != nil {
			fo.SetSort(rec.argD(freshD(srt)))
		}
		if proj != nil {
			fo.SetProjection(rec.argD(freshD(proj)))
		}
		if af := asA(getD(step, "arrayFilters")); len(af) > 0 {
			fo.SetArrayFilters(options.ArrayFilters{Filters: toIfaces(rec.arg(fresh(af)).(bson.A))})
		}
		d, err := h.decodeSingle(h.coll(ns).FindOneAndUpdate(ctx, rec.argD(freshD(asD(getD(step, "filter")))), rec.argD(freshD(asD(getD(step, "update")))), fo))
		return finish(singleResult(d, err, &returned))
	case "bulkWrite":
		var models []mongo.WriteModel
		for _, m := range asA(getD(step, "models")) {
			md := asD(m)
			switch asS(getD(md, "kind")) {
			case "insertOne":
				models = append(models, mongo.NewInsertOneModel().SetDocument(rec.argD(freshD(asD(getD(md, "doc"))))))
			case "replaceOne":
				models = append(models, mongo.NewReplaceOneModel().SetFilter(rec.argD(freshD(asD(getD(md, "filter"))))).SetReplacement(rec.argD(freshD(asD(getD(md, "repl"))))).SetUpsert(asB(getD(md, "upsert"))))
			case "updateOne":
				um := mongo.NewUpdateOneModel().SetFilter(rec.argD(freshD(asD(getD(md, "filter"))))).SetUpdate(rec.argD(freshD(asD(getD(md, "update"))))).SetUpsert(asB(getD(md, "upsert")))
				if af := asA(getD(md, "arrayFilters")); len(af) > 0 {
					um.SetArrayFilters(options.ArrayFilters{Filters: toIfaces(rec.arg(fresh(af)).(bson.A))})
				}
				models = append(models, um)
			case "updateMany":
				um := mongo.NewUpdateManyModel().SetFilter(rec.argD(freshD(asD(getD(md, "filter"))))).SetUpdate(rec.argD(freshD(asD(getD(md, "update"))))).SetUpsert(asB(getD(md, "upsert")))
				if af := asA(getD(md, "arrayFilters")); len(af) > 0 {
					um.SetArrayFilters(options.ArrayFilters{Filters: toIfaces(rec.arg(fresh(af)).(bson.A))})
				}
				models = append(models, um)
			case "deleteOne":
				models = append(models, mongo.NewDeleteOneModel().SetFilter(rec.argD(freshD(asD(getD(md, "filter"))))))
			case "deleteMany":
				models = append(models, mongo.NewDeleteManyModel().SetFilter(rec.argD(freshD(asD(getD(md, "filter"))))))
			}
		}
		r, err := h.coll(ns).BulkWrite(ctx, models, options.BulkWrite().SetOrdered(asB(getD(step, "ordered"))))
		out := bson.D{{Key: "err", Value: errClass(err)}}
		if r != nil {
			ups := bson.D{}
			var keys []int
			for k := range r.UpsertedIDs {
				keys = append(keys, int(k))
			}
			sort.Ints(keys)
			for _, k := range keys {
				ups = append(ups, bson.E{Key: fmt.Sprint(k), Value: deepCopyBin(r.UpsertedIDs[int64(k)])})
				returned = append(returned, r.UpsertedIDs[int64(k)])
			}
			out = append(out, bson.E{Key: "inserted", Value: r.InsertedCount}, bson.E{Key: "matched", Value: r.MatchedCount}, bson.E{Key: "modified", Value: r.ModifiedCount}, bson.E{Key: "deleted", Value: r.DeletedCount}, bson.E{Key: "upserted", Value: r.UpsertedCount}, bson.E{Key: "upsertedIDs", Value: ups})
		}
		if we, ok := err.(mongo.WriteErrors); ok {
			idx := bson.A{}
			for _, w := range we {
				cls := "other"
				if strings.Contains(w.Message, "duplicate") {
					cls = "uniq"
				}
				idx = append(idx, bson.D{{Key: "i", Value: int32(w.Index)}, {Key: "c", Value: cls}})
			}
			out = append(out, bson.E{Key: "failed", Value: idx})
		}
		if h.scribble && r != nil && r.UpsertedIDs != nil {
			// the result's map belongs to the caller as well
			r.UpsertedIDs[-7] = "scribbled"
		}
		return finish(out)
	case "createIndex":
		name, err := h.coll(ns).Indexes().CreateOne(ctx, indexModel(step, rec))
		return finish(bson.D{{Key: "err", Value: errClass(err)}, {Key: "name", Value: name}})
	case "createIndexes":
		var ms []mongo.IndexModel
		for _, m := range asA(getD(step, "models")) {
			ms = append(ms, indexModel(asD(m), rec))
		}
		names, err := h.coll(ns).Indexes().CreateMany(ctx, ms)
		na := bson.A{}
		for _, n := range names {
			na = append(na, n)
		}
		return finish(bson.D{{Key: "err", Value: errClass(err)}, {Key: "names", Value: na}})
	case "dropIndex":
		_, err := h.coll(ns).Indexes().DropOne(ctx, asS(getD(step, "name")))
		return finish(bson.D{{Key: "err", Value: errClass(err)}})
	case "dropIndexKey":
		_, err := h.coll(ns).Indexes().DropOneWithKey(ctx, rec.argD(freshD(asD(getD(step, "keys")))))
		return finish(bson.D{{Key: "err", Value: errClass(err)}})
	case "dropIndexes":
		_, err := h.coll(ns).Indexes().DropAll(ctx)
		return finish(bson.D{{Key: "err", Value: errClass(err)}})
	case "listIndexes":
		cur, err := h.coll(ns).Indexes().List(ctx)
		out := bson.D{{Key: "err", Value: errClass(err)}}
		if err == nil {
			var specs []bson.D
			if e := cur.All(ctx, &specs); e != nil {
				return nil, fmt.Errorf("cursor.All failed: %v", e)
			}
			out = append(out, bson.E{Key: "specs", Value: deepCopyBin(docsToA(specs))})
			for _, s := range specs {
				returned = append(returned, s)
			}
		}
		return finish(out)
	case "createColl":
		db, c := splitNS(ns)
		err := h.client.Database(db).CreateCollection(ctx, c)
		return finish(bson.D{{Key: "err", Value: errClass(err)}})
	case "dropColl":
		err := h.coll(ns).Drop(ctx)
		return finish(bson.D{{Key: "err", Value: errClass(err)}})
	case "dropDB":
		err := h.client.Database(asS(getD(step, "db"))).Drop(ctx)
		return finish(bson.D{{Key: "err", Value: errClass(err)}})
	case "listColls":
		names, err := h.client.Database(asS(getD(step, "db"))).ListCollectionNames(ctx, bson.D{})
		na := bson.A{}
		for _, n := range names {
			na = append(na, n)
		}
		return finish(bson.D{{Key: "err", Value: errClass(err)}, {Key: "names", Value: na}})
	case "listCollsFull":
		// the full listing (name, type, options, info, idIndex) through a cursor
		flt := rec.argD(freshD(asD(getD(step, "filter"))))
		if flt == nil {
			flt = bson.D{}
		}
		cur, err := h.client.Database(asS(getD(step, "db"))).ListCollections(ctx, flt)
		out := bson.D{{Key: "err", Value: errClass(err)}}
		if err == nil {
			var docs []bson.D
			if e := cur.All(ctx, &docs); e != nil {
				return finish(bson.D{{Key: "err", Value: errClass(e)}})
			}
			for _, d := range docs {
				returned = append(returned, d)
			}
			out = append(out, bson.E{Key: "docs", Value: docsToA(docs)})
		}
		return finish(out)
	case "listDBsFull":
		r, err := h.client.ListDatabases(ctx, bson.D{})
		na := bson.A{}
		for _, d := range r.Databases {
			if d.Name != "local" {
				na = append(na, bson.D{{Key: "name", Value: d.Name}, {Key: "empty", Value: d.Empty}})
			}
		}
		return finish(bson.D{{Key: "err", Value: errClass(err)}, {Key: "dbs", Value: na}})
	case "listDBs":
		names, err := h.client.ListDatabaseNames(ctx, bson.D{})
		na := bson.A{}
		for _, n := range names {
			if n != "local" {
				na = append(na, n)
			}
		}
		return finish(bson.D{{Key: "err", Value: errClass(err)}, {Key: "names", Value: na}})
	}
	return nil, fmt.Errorf("harness: unknown step op %q", op)
}

// decodeSingle reads a single result the way a hostile but legal caller may:
// it takes the raw bytes, overwrites them, decodes, and takes the raw bytes
// again. All views must agree (values handed back may be modified without
// effect on the results of other calls).
func (h *hEnv) decodeSingle(sr lungo.ISingleResult) (bson.D, error) {
	var d bson.D
	if !h.scribble {
		return d, firstErr(sr.Decode(&d), &d)
	}
	raw1, rerr := sr.DecodeBytes()
	var keep []byte
	if rerr == nil {
		keep = append([]byte{}, raw1...)
		for i := range raw1 {
			raw1[i] = 0
		}
	}
	err := sr.Decode(&d)
	if (err == nil) != (rerr == nil) {
		h.argViolation = fmt.Sprintf("SingleResult.DecodeBytes and Decode disagree after the returned bytes were overwritten: %v / %v", rerr, err)
		return d, err
	}
	if err == nil {
		if string(marshal(d)) != string(keep) {
			h.argViolation = fmt.Sprintf("SingleResult.Decode returns %s after the bytes returned by DecodeBytes were overwritten (they held %x)", show(d), keep)
		}
		raw2, err2 := sr.Raw()
		if err2 != nil || string(raw2) != string(keep) {
			h.argViolation = fmt.Sprintf("SingleResult.Raw changed after the bytes returned earlier were overwritten: %x vs %x", raw2, keep)
		}
	}
	return d, err
}

func firstErr(err error, _ *bson.D) error { return err }

func indexModel(m bson.D, rec *callRecord) mongo.IndexModel {
	io := options.Index()
	if asB(getD(m, "unique")) {
		io.SetUnique(true)
	}
	if p := optD(m, "partial"); p != nil {
		io.SetPartialFilterExpression(rec.argD(freshD(p)))
	}
	if v := getD(m, "ttl"); v != nil {
		io.SetExpireAfterSeconds(int32(asI(v)))
	}
	if n := asS(getD(m, "name")); n != "" {
		io.SetName(n)
	}
	rec.opt(io)
	return mongo.IndexModel{Keys: rec.argD(freshD(asD(getD(m, "keys")))), Options: io}
}

func singleResult(d bson.D, err error, returned *[]interface{}) bson.D {
	if err == mongo.ErrNoDocuments {
		return bson.D{{Key: "err", Value: ""}, {Key: "none", Value: true}}
	}
	out := bson.D{{Key: "err", Value: errClass(err)}}
	if err == nil {
		out = append(out, bson.E{Key: "doc", Value: deepCopyBin(d)})
		*returned = append(*returned, d)
	}
	return out
}

func updateResult(r *mongo.UpdateResult, err error, returned *[]interface{}) bson.D {
	out := bson.D{{Key: "err", Value: errClass(err)}}
	if err == nil && r != nil {
		out = append(out, bson.E{Key: "matched", Value: r.MatchedCount}, bson.E{Key: "modified", Value: r.ModifiedCount}, bson.E{Key: "upserted", Value: r.UpsertedCount})
		if r.UpsertedID != nil || r.UpsertedCount > 0 {
			out = append(out, bson.E{Key: "upsertedID", Value: deepCopyBin(r.UpsertedID)})
			*returned = append(*returned, r.UpsertedID)
		}
	}
	return out
}

func deleteResult(r *mongo.DeleteResult, err error) bson.D {
	out := bson.D{{Key: "err", Value: errClass(err)}}
	if err == nil && r != nil {
		out = append(out, bson.E{Key: "deleted", Value: r.DeletedCount})
	}
	return out
}

// ---------------------------------------------------------------- dumps

// nsDump is the observable state of one namespace.
type nsDump struct {
	Handle  lungo.Handle
	Docs    [][]byte          // BSON bytes in natural order
	Indexes map[string]string // name -> canonical "config | list positions"
}

// catalogDump canonically renders everything reachable from a catalog:
// documents, index definitions, index List() order (as positions in the
// document list) and the change log. With normalise the volatile parts of
// change-log events (timestamps) are blanked so dumps of different engines
// can be compared.
func catalogDump(cat *lungo.Catalog, normalise bool) string {
	return catalogDumpOpts(cat, normalise, normalise)
}

// catalogDumpOpts: normalise blanks event timestamps and generated ObjectIDs;
// sortPositions renders index lists as sorted position sets (the order among
// equal keys depends on document addresses and differs between engines).
func catalogDumpOpts(cat *lungo.Catalog, normalise, sortPositions bool) string {
	var handles []lungo.Handle
	for h := range cat.Namespaces {
		handles = append(handles, h)
	}
	sort.Slice(handles, func(i, j int) bool { return handles[i].String() < handles[j].String() })
	var sb strings.Builder
	oids := map[primitive.ObjectID]primitive.ObjectID{}
	for _, hd := range handles {
		c := cat.Namespaces[hd]
		sb.WriteString(fmt.Sprintf("NS %s (db %q, collection %q)\n", hd.String(), hd[0], hd[1]))
		pos := map[*bson.D]int{}
		for i, d := range c.Documents.List {
			pos[d] = i
			if normalise && hd == lungo.Oplog {
				sb.WriteString(fmt.Sprintf(" D %x\n", marshal(normOIDs(normaliseEvent(*d), oids).(bson.D))))
			} else if normalise {
				sb.WriteString(fmt.Sprintf(" D %x\n", marshal(normOIDs(*d, oids).(bson.D))))
			} else {
				sb.WriteString(fmt.Sprintf(" D %x\n", marshal(*d)))
			}
		}
		if len(c.Documents.Index) != len(c.Documents.List) {
			sb.WriteString(fmt.Sprintf(" SET-INDEX-SIZE %d != %d\n", len(c.Documents.Index), len(c.Documents.List)))
		}
		var names []string
		for n := range c.Indexes {
			names = append(names, n)
		}
		sort.Strings(names)
		for _, n := range names {
			ix := c.Indexes[n]
			sb.WriteString(" I " + n + " " + indexConfigString(ix.Config()) + " [")
			// positions sorted within groups of equal keys cannot be told apart
			// here; ties are broken by document identity in lungo, so render the
			// list as the sequence of positions (deterministic for a given
			// engine, compared only before/after on the same engine) unless
			// normalising
			list := ix.List()
			if sortPositions {
				ps := make([]int, len(list))
				for i, d := range list {
					ps[i] = pos[d]
				}
				sort.Ints(ps)
				for _, p := range ps {
					sb.WriteString(fmt.Sprintf("%d ", p))
				}
			} else {
				for _, d := range list {
					p, ok := pos[d]
					if !ok {
						p = -1
					}
					sb.WriteString(fmt.Sprintf("%d ", p))
				}
			}
			sb.WriteString("]\n")
		}
	}
	return sb.String()
}

func indexConfigString(c mongokit.IndexConfig) string {
	s := fmt.Sprintf("key=%x unique=%v expiry=%d", marshal(*c.Key), c.Unique, int64(c.Expiry))
	if c.Partial != nil {
		s += fmt.Sprintf(" partial=%x", marshal(*c.Partial))
	}
	return s
}

// normOIDs replaces generated ObjectIDs (every ObjectID that is not one of the
// generator's constants) by placeholders numbered in order of appearance, so
// that two engines that generated ids independently can be compared.
func normOIDs(v interface{}, m map[primitive.ObjectID]primitive.ObjectID) interface{} {
	switch x := v.(type) {
	case bson.D:
		out := make(bson.D, len(x))
		for i, e := range x {
			out[i] = bson.E{Key: e.Key, Value: normOIDs(e.Value, m)}
		}
		return out
	case bson.A:
		out := make(bson.A, len(x))
		for i, e := range x {
			out[i] = normOIDs(e, m)
		}
		return out
	case primitive.ObjectID:
		if x == gen.OID1 || x == gen.OID2 {
			return x
		}
		if p, ok := m[x]; ok {
			return p
		}
		var p primitive.ObjectID
		n := len(m) + 1
		p[0] = 0xFF
		p[10] = byte(n >> 8)
		p[11] = byte(n)
		m[x] = p
		return p
	}
	return v
}

// normaliseEvent blanks the volatile fields of a change-log event.
func normaliseEvent(ev bson.D) bson.D {
	out := bson.D{}
	for _, e := range ev {
		switch e.Key {
		case "_id", "clusterTime", "wallTime":
			continue
		}
		out = append(out, e)
	}
	// canonical field order (events are built from Go maps)
	sort.SliceStable(out, func(i, j int) bool { return out[i].Key < out[j].Key })
	for i := range out {
		out[i].Value = sortKeysDeep(out[i].Value, out[i].Key == "fullDocument")
	}
	return out
}

// sortKeysDeep sorts map-built sub-documents of events (ns, documentKey,
// updateDescription); fullDocument keeps its order.
func sortKeysDeep(v interface{}, keep bool) interface{} {
	if keep {
		return v
	}
	switch x := v.(type) {
	case bson.D:
		out := make(bson.D, len(x))
		copy(out, x)
		sort.SliceStable(out, func(i, j int) bool { return out[i].Key < out[j].Key })
		for i := range out {
			if out[i].Key == "updatedFields" {
				// values are user data; only the top-level path keys are sorted
				if d, ok := out[i].Value.(bson.D); ok {
					dd := make(bson.D, len(d))
					copy(dd, d)
					sort.SliceStable(dd, func(a, b int) bool { return dd[a].Key < dd[b].Key })
					out[i].Value = dd
				}
				continue
			}
			if out[i].Key == "removedFields" {
				if a, ok := out[i].Value.(bson.A); ok {
					ss := make([]string, 0, len(a))
					for _, s := range a {
						ss = append(ss, asS(s))
					}
					sort.Strings(ss)
					na := bson.A{}
					for _, s := range ss {
						na = append(na, s)
					}
					out[i].Value = na
				}
				continue
			}
			if out[i].Key == "_id" {
				continue // documentKey._id is user data
			}
			out[i].Value = sortKeysDeep(out[i].Value, false)
		}
		return out
	}
	return v
}

// deepCopyBin copies like deepCopy and also copies binary payloads and
// normalises []interface{} to bson.A.
func deepCopyBin(v interface{}) interface{} {
	switch x := v.(type) {
	case bson.D:
		out := make(bson.D, len(x))
		for i, e := range x {
			out[i] = bson.E{Key: e.Key, Value: deepCopyBin(e.Value)}
		}
		return out
	case bson.A:
		out := make(bson.A, len(x))
		for i, e := range x {
			out[i] = deepCopyBin(e)
		}
		return out
	case []interface{}:
		out := make(bson.A, len(x))
		for i, e := range x {
			out[i] = deepCopyBin(e)
		}
		return out
	case bson.M:
		// results decoded into maps are normalised to sorted documents
		keys := make([]string, 0, len(x))
		for k := range x {
			keys = append(keys, k)
		}
		sort.Strings(keys)
		out := bson.D{}
		for _, k := range keys {
			out = append(out, bson.E{Key: k, Value: deepCopyBin(x[k])})
		}
		return out
	}
	return copyBinary(v)
}
