package props

import (
	"strings"

	"go.mongodb.org/mongo-driver/bson"
	"go.mongodb.org/mongo-driver/bson/primitive"
	"pgregory.net/rapid"

	"verifharness/gen"
)

// copyBinary copies the payload of a binary value.
func copyBinary(v interface{}) interface{} {
	if b, ok := v.(primitive.Binary); ok {
		return primitive.Binary{Subtype: b.Subtype, Data: append([]byte{}, b.Data...)}
	}
	return v
}

// scribbleDeep overwrites, in place, everything reachable from v that a caller
// could legally modify: elements of documents and arrays, binary payloads.
func scribbleDeep(v interface{}) {
	switch x := v.(type) {
	case bson.D:
		for i := range x {
			scribbleDeep(x[i].Value)
			x[i].Value = "scribbled"
		}
	case *bson.D:
		if x != nil {
			scribbleDeep(*x)
		}
	case bson.A:
		for i := range x {
			scribbleDeep(x[i])
			x[i] = "scribbled"
		}
	case []interface{}:
		for i := range x {
			scribbleDeep(x[i])
			x[i] = "scribbled"
		}
	case bson.M:
		for k := range x {
			scribbleDeep(x[k])
			x[k] = "scribbled"
		}
	case primitive.Binary:
		for i := range x.Data {
			x.Data[i] = 0xEE
		}
	}
}

// hProfile biases the history generator for one property.
type hProfile struct {
	name     string
	cfg      gen.Cfg
	weights  map[string]int // op -> weight
	nss      []string
	docGen   func(t *rapid.T, p *hProfile) bson.D // document body (without _id)
	idPool   []interface{}
	ttl      bool
	tinyVals []interface{} // when set, filters/updates prefer these values
	// storeFail: percentage of write steps that run with a Store call that
	// fails (the whole call must then fail and change nothing)
	storeFail int
	// ttlBoost: percentage of index models that are a plain TTL index on a
	// field that holds dates
	ttlBoost int
	// emptyPartial: index models may carry the empty partial filter {}
	emptyPartial bool
	// bigInserts: some insertMany steps insert 13-20 documents with ties
	bigInserts bool
	// delOnly: percentage (x2) of bulk writes that consist of deletes only
	delOnly int
}

func (p *hProfile) delOnlyPct() int {
	if p.delOnly > 0 {
		return p.delOnly
	}
	return 10
}

var allNS = []string{"d1.c1", "d1.c1", "d1.c1", "d1.c2", "d2.c1"}

var baseIDs = []interface{}{int32(1), int32(2), int32(3), int32(4), int32(5), int32(6), int64(1), float64(2), "k1", "k2", gen.OID1, bson.D{{Key: "x", Value: int32(1)}}, bson.D{{Key: "x", Value: int32(2)}, {Key: "y", Value: bson.A{int32(1)}}}, primitive.Binary{Subtype: 0, Data: []byte{1, 2}}}

var simpleIDs = []interface{}{int32(1), int32(2), int32(3), int32(4), int32(5), int32(6), int32(7), int32(8), "k1", "k2"}

func defaultDocGen(t *rapid.T, p *hProfile) bson.D {
	if len(p.tinyVals) > 0 {
		d := bson.D{}
		for _, k := range []string{"a", "b", "c"} {
			switch rapid.IntRange(0, 9).Draw(t, "fk") {
			case 0, 1:
			case 2:
				d = append(d, bson.E{Key: k, Value: p.cfg.Value(2, false).Draw(t, "fv")})
			default:
				d = append(d, bson.E{Key: k, Value: rapid.SampledFrom(p.tinyVals).Draw(t, "tv")})
			}
		}
		return d
	}
	return p.cfg.Doc(2, 3).Draw(t, "body")
}

// hView is what the generator may look at: the documents currently stored per
// namespace and the index names (taken from lungo's catalog; used only to bias
// generation towards existing data).
type hView struct {
	docs    map[string][]bson.D
	indexes map[string][]string
	idxKeys map[string][]bson.D
}

func (v *hView) allDocs(ns string) []bson.D { return v.docs[ns] }

func withID(id interface{}, body bson.D) bson.D {
	return append(bson.D{{Key: "_id", Value: id}}, body...)
}

func (p *hProfile) pickNS(t *rapid.T) string {
	return rapid.SampledFrom(p.nss).Draw(t, "ns")
}

func (p *hProfile) genDoc(t *rapid.T, view *hView, ns string) bson.D {
	body := p.docGen(t, p)
	if rapid.IntRange(0, 11).Draw(t, "noid") == 0 {
		return body // generated ObjectID
	}
	return withID(rapid.SampledFrom(p.idPool).Draw(t, "id"), body)
}

// genFilter builds a filter: by _id of an existing document, by a value that
// occurs in the collection, from the filter grammar, or {}.
func (p *hProfile) genFilter(t *rapid.T, view *hView, ns string) bson.D {
	docs := view.allDocs(ns)
	k := rapid.IntRange(0, 9).Draw(t, "fkind")
	switch {
	case k <= 2 && len(docs) > 0:
		d := rapid.SampledFrom(docs).Draw(t, "fdoc")
		return bson.D{{Key: "_id", Value: getD(d, "_id")}}
	case k <= 4 && len(docs) > 0:
		d := rapid.SampledFrom(docs).Draw(t, "fdoc")
		for _, e := range d {
			if e.Key != "_id" && rapid.Bool().Draw(t, "usefield") {
				if _, isD := e.Value.(bson.D); !isD {
					return bson.D{{Key: e.Key, Value: e.Value}}
				}
			}
		}
		return bson.D{{Key: "_id", Value: getD(d, "_id")}}
	case k == 5:
		return bson.D{{Key: "_id", Value: rapid.SampledFrom(p.idPool).Draw(t, "fid")}}
	case k <= 7:
		var f bson.D
		gen.WithHint(gen.HintOf(docs...), func() { f = p.cfg.Filter(1).Draw(t, "filter") })
		return f
	case k == 8:
		return p.genSeedFilter(t)
	default:
		return bson.D{}
	}
}

// genSeedFilter builds a conjunction of equalities in one of the shapes an
// upsert derives its new document from: plain fields, $eq, and $and nested to
// several levels.
func (p *hProfile) genSeedFilter(t *rapid.T) bson.D {
	val := func(label string) interface{} {
		if len(p.tinyVals) > 0 {
			return rapid.SampledFrom(p.tinyVals).Draw(t, label)
		}
		return p.cfg.Scalar().Draw(t, label)
	}
	eq := func(k string) bson.D {
		v := val("sv" + k)
		if rapid.IntRange(0, 3).Draw(t, "seq"+k) == 0 {
			return bson.D{{Key: k, Value: bson.D{{Key: "$eq", Value: v}}}}
		}
		return bson.D{{Key: k, Value: v}}
	}
	keys := [][]string{{"a", "b", "c"}, {"a", "b", "c"}, {"_id", "b", "c"}, {"a.b", "b", "c"}, {"a", "b.x", "c"}}
	ks := rapid.SampledFrom(keys).Draw(t, "skeys")
	a, b, c := eq(ks[0]), eq(ks[1]), eq(ks[2])
	switch rapid.IntRange(0, 6).Draw(t, "sshape") {
	case 0:
		return append(append(a, b...), c...)
	case 1:
		return bson.D{{Key: "$and", Value: bson.A{a, b}}}
	case 2:
		return bson.D{{Key: "$and", Value: bson.A{bson.D{{Key: "$and", Value: bson.A{a, b}}}, c}}}
	case 3:
		return append(bson.D{{Key: "$and", Value: bson.A{a, bson.D{{Key: "$and", Value: bson.A{b}}}}}}, c...)
	case 4:
		return bson.D{{Key: "$and", Value: bson.A{bson.D{{Key: "$and", Value: bson.A{bson.D{{Key: "$and", Value: bson.A{a}}}}}}, append(b, c...)}}}
	case 5:
		return append(a, b...)
	default:
		return a
	}
}

// genFilterBroad is used by multi-document writes: mostly filters that select
// several documents.
func (p *hProfile) genFilterBroad(t *rapid.T, view *hView, ns string) bson.D {
	docs := view.allDocs(ns)
	k := rapid.IntRange(0, 9).Draw(t, "bkind")
	switch {
	case k <= 3:
		return bson.D{}
	case k <= 6 && len(docs) > 0:
		d := rapid.SampledFrom(docs).Draw(t, "bdoc")
		for _, e := range d {
			if e.Key != "_id" {
				if _, isD := e.Value.(bson.D); !isD {
					return bson.D{{Key: e.Key, Value: e.Value}}
				}
			}
		}
		return bson.D{{Key: "_id", Value: bson.D{{Key: "$gte", Value: int32(2)}}}}
	case k == 7:
		return bson.D{{Key: "_id", Value: bson.D{{Key: rapid.SampledFrom([]string{"$gte", "$lte", "$ne"}).Draw(t, "bop"), Value: rapid.SampledFrom(p.idPool).Draw(t, "bid")}}}}
	}
	return p.genFilter(t, view, ns)
}

func (p *hProfile) genSort(t *rapid.T) bson.D {
	if rapid.IntRange(0, 2).Draw(t, "hassort") > 0 {
		return nil
	}
	s := bson.D{}
	n := rapid.IntRange(1, 2).Draw(t, "nsort")
	used := map[string]bool{}
	for i := 0; i < n; i++ {
		k := rapid.SampledFrom([]string{"a", "b", "c", "_id", "a.b"}).Draw(t, "skey")
		if used[k] {
			continue
		}
		used[k] = true
		s = append(s, bson.E{Key: k, Value: rapid.SampledFrom([]interface{}{int32(1), int32(-1)}).Draw(t, "sdir")})
	}
	return s
}

func (p *hProfile) genProj(t *rapid.T, view *hView, ns string) bson.D {
	if rapid.IntRange(0, 3).Draw(t, "hasproj") > 0 {
		return nil
	}
	var pr bson.D
	gen.WithHint(gen.HintOf(view.allDocs(ns)...), func() { pr = p.cfg.Projection().Draw(t, "proj") })
	return pr
}

func (p *hProfile) genUpdate(t *rapid.T, view *hView, ns string) (bson.D, bson.A) {
	var upd bson.D
	var af bson.A
	gen.WithHint(gen.HintOf(view.allDocs(ns)...), func() {
		if len(p.tinyVals) > 0 && rapid.IntRange(0, 9).Draw(t, "tinyupd") < 6 {
			// move values around among the small pool (collisions on indexed fields)
			op := rapid.SampledFrom([]string{"$set", "$set", "$set", "$unset", "$inc", "$push", "$addToSet", "$pull", "$pushEach", "$addToSetEach", "$conflict"}).Draw(t, "top")
			k := rapid.SampledFrom([]string{"a", "b", "c"}).Draw(t, "tk")
			if (op == "$set" || op == "$inc" || op == "$unset") && rapid.IntRange(0, 999).Draw(t, "deepk")%6 == 3 {
				// through an array into its elements (documents inside arrays)
				k = rapid.SampledFrom([]string{"a.0.b", "a.$[].b", "a.1.b", "b.0.b", "a.$[].c"}).Draw(t, "tkdeep")
			}
			var v interface{} = rapid.SampledFrom(p.tinyVals).Draw(t, "tval")
			switch op {
			case "$conflict":
				// a path and its ancestor, both written with fresh values:
				// rejected as a whole whenever the update is applied at all
				child := k + "." + rapid.SampledFrom([]string{"b", "x"}).Draw(t, "cfc")
				fields := bson.D{{Key: child, Value: "fresh-c"}, {Key: k, Value: "fresh-p"}}
				if rapid.Bool().Draw(t, "cford") {
					fields = bson.D{fields[1], fields[0]}
				}
				upd = bson.D{{Key: "$set", Value: fields}}
				return
			case "$addToSetEach":
				op = "$addToSet"
				a, b := rapid.SampledFrom(p.tinyVals).Draw(t, "as1"), rapid.SampledFrom(p.tinyVals).Draw(t, "as2")
				v = bson.D{{Key: "$each", Value: rapid.SampledFrom([]bson.A{{a, b, a}, {a, a}, {b, a, b, a}, {a}}).Draw(t, "asl")}}
			case "$pushEach":
				// $push with modifiers on (mostly) existing arrays: windows
				// that cut, positions inside, sorts
				op = "$push"
				each := bson.A{rapid.SampledFrom(p.tinyVals).Draw(t, "pe1")}
				if rapid.Bool().Draw(t, "pe2") {
					each = append(each, rapid.SampledFrom(p.tinyVals).Draw(t, "pe2v"))
				}
				mod := bson.D{{Key: "$each", Value: each}}
				if rapid.IntRange(0, 3).Draw(t, "pepos") == 0 {
					mod = append(mod, bson.E{Key: "$position", Value: rapid.SampledFrom([]interface{}{int32(0), int32(1), int32(-1)}).Draw(t, "peposv")})
				}
				if rapid.IntRange(0, 3).Draw(t, "pesort") == 0 {
					mod = append(mod, bson.E{Key: "$sort", Value: rapid.SampledFrom([]interface{}{int32(1), int32(-1)}).Draw(t, "pesortv")})
				}
				if rapid.IntRange(0, 3).Draw(t, "peslice") > 0 {
					mod = append(mod, bson.E{Key: "$slice", Value: rapid.SampledFrom([]interface{}{int32(1), int32(2), int32(3), int32(-1), int32(-2), int32(0)}).Draw(t, "peslicev")})
				}
				v = mod
			case "$unset":
				v = ""
			case "$inc":
				v = rapid.SampledFrom([]interface{}{int32(1), int32(-1), int64(1), float64(1)}).Draw(t, "tinc")
			}
			upd = bson.D{{Key: op, Value: bson.D{{Key: k, Value: v}}}}
			return
		}
		upd = genUpdateDoc(t, p.cfg, gen.UpdateOps, 2)
		if rapid.IntRange(0, 9).Draw(t, "positional") == 0 {
			op := rapid.SampledFrom([]string{"$set", "$inc", "$unset"}).Draw(t, "pop")
			if rapid.Bool().Draw(t, "useid") {
				upd = bson.D{{Key: op, Value: bson.D{{Key: "a.$[x]", Value: p.cfg.UpdateArg(op).Draw(t, "parg")}}}}
				af = bson.A{bson.D{{Key: "x", Value: bson.D{{Key: rapid.SampledFrom([]string{"$gte", "$lt", "$ne", "$eq"}).Draw(t, "afop"), Value: p.cfg.Scalar().Draw(t, "afv")}}}}}
			} else {
				upd = bson.D{{Key: op, Value: bson.D{{Key: "a.$[]", Value: p.cfg.UpdateArg(op).Draw(t, "parg")}}}}
			}
		}
	})
	return upd, af
}

func (p *hProfile) genIndexModel(t *rapid.T, view *hView, ns string) bson.D {
	if p.ttlBoost > 0 && rapid.IntRange(0, 999).Draw(t, "ttlplain")%100 >= 100-p.ttlBoost {
		// a plain TTL index on one of the fields that hold dates
		k := rapid.SampledFrom([]string{"a", "b", "c"}).Draw(t, "ttlkey")
		return bson.D{{Key: "keys", Value: bson.D{{Key: k, Value: int32(1)}}}, {Key: "ttl", Value: rapid.SampledFrom([]interface{}{int32(0), int32(1), int32(3600)}).Draw(t, "ttlv")}}
	}
	nk := rapid.SampledFrom([]int{1, 1, 1, 2}).Draw(t, "nkeys")
	keys := bson.D{}
	used := map[string]bool{}
	for i := 0; i < nk; i++ {
		k := rapid.SampledFrom([]string{"a", "b", "c", "a.b", "b.a"}).Draw(t, "ikey")
		if used[k] {
			continue
		}
		used[k] = true
		keys = append(keys, bson.E{Key: k, Value: rapid.SampledFrom([]interface{}{int32(1), int32(-1), int64(1), float64(1)}).Draw(t, "idir")})
	}
	m := bson.D{{Key: "keys", Value: keys}}
	if rapid.IntRange(0, 9).Draw(t, "uniq") < 6 {
		m = append(m, bson.E{Key: "unique", Value: true})
	}
	if rapid.IntRange(0, 9).Draw(t, "partial") < 3 {
		pk := rapid.SampledFrom([]string{"a", "b", "c"}).Draw(t, "pkey")
		var pv interface{}
		if len(p.tinyVals) > 0 {
			pv = rapid.SampledFrom(p.tinyVals).Draw(t, "pval")
		} else {
			pv = p.cfg.Scalar().Draw(t, "pval")
		}
		conds := []string{"eq", "$gte", "$exists", "$lt"}
		if p.emptyPartial {
			conds = append(conds, "empty")
		}
		cond := rapid.SampledFrom(conds).Draw(t, "pcond")
		switch cond {
		case "empty":
			m = append(m, bson.E{Key: "partial", Value: bson.D{}})
		case "eq":
			m = append(m, bson.E{Key: "partial", Value: bson.D{{Key: pk, Value: pv}}})
		case "$exists":
			m = append(m, bson.E{Key: "partial", Value: bson.D{{Key: pk, Value: bson.D{{Key: "$exists", Value: true}}}}})
		default:
			m = append(m, bson.E{Key: "partial", Value: bson.D{{Key: pk, Value: bson.D{{Key: cond, Value: pv}}}}})
		}
	}
	if p.ttl && len(keys) == 1 && rapid.IntRange(0, 9).Draw(t, "ttl") < 3 {
		m = append(m, bson.E{Key: "ttl", Value: rapid.SampledFrom([]interface{}{int32(0), int32(1), int32(60), int32(3600)}).Draw(t, "ttlv")})
	}
	if rapid.IntRange(0, 9).Draw(t, "named") < 2 {
		m = append(m, bson.E{Key: "name", Value: rapid.SampledFrom([]string{"x", "y", "a_1"}).Draw(t, "iname")})
	}
	return m
}

func (p *hProfile) genBulkModel(t *rapid.T, view *hView, ns string) bson.D {
	kind := rapid.SampledFrom([]string{"insertOne", "insertOne", "replaceOne", "updateOne", "updateMany", "deleteOne", "deleteMany"}).Draw(t, "bkind")
	m := bson.D{{Key: "kind", Value: kind}}
	switch kind {
	case "insertOne":
		d := p.genDoc(t, view, ns)
		if len(d) == 0 || d[0].Key != "_id" {
			d = withID(rapid.SampledFrom(p.idPool).Draw(t, "bid"), d)
		}
		m = append(m, bson.E{Key: "doc", Value: d})
	case "replaceOne":
		m = append(m, bson.E{Key: "filter", Value: p.genFilter(t, view, ns)}, bson.E{Key: "repl", Value: p.docGen(t, p)}, bson.E{Key: "upsert", Value: rapid.IntRange(0, 3).Draw(t, "bups") == 0})
	case "updateOne", "updateMany":
		upd, af := p.genUpdate(t, view, ns)
		flt := p.genFilter(t, view, ns)
		if kind == "updateMany" {
			flt = p.genFilterBroad(t, view, ns)
		}
		m = append(m, bson.E{Key: "filter", Value: flt}, bson.E{Key: "update", Value: upd}, bson.E{Key: "upsert", Value: rapid.IntRange(0, 3).Draw(t, "bups") == 0})
		if len(af) > 0 {
			m = append(m, bson.E{Key: "arrayFilters", Value: af})
		}
	default:
		m = append(m, bson.E{Key: "filter", Value: p.genFilter(t, view, ns)})
	}
	return m
}

// genStep draws one step.
func (p *hProfile) genStep(t *rapid.T, view *hView) bson.D {
	var ops []string
	for op, w := range p.weights {
		_ = w
		ops = append(ops, op)
	}
	// deterministic order
	sortStrings(ops)
	var bag []string
	for _, op := range ops {
		for i := 0; i < p.weights[op]; i++ {
			bag = append(bag, op)
		}
	}
	op := rapid.SampledFrom(bag).Draw(t, "op")
	ns := p.pickNS(t)
	step := bson.D{{Key: "op", Value: op}, {Key: "ns", Value: ns}}
	add := func(k string, v interface{}) {
		if d, ok := v.(bson.D); ok && d == nil {
			return
		}
		if a, ok := v.(bson.A); ok && a == nil {
			return
		}
		step = append(step, bson.E{Key: k, Value: v})
	}
	switch op {
	case "insertOne":
		add("doc", p.genDoc(t, view, ns))
	case "insertMany":
		n := rapid.IntRange(1, 4).Draw(t, "ndocs")
		if p.bigInserts && rapid.IntRange(0, 999).Draw(t, "bigins")%6 == 2 {
			// enough documents for sort implementations to leave their
			// small-input path, with few distinct values (ties)
			n = rapid.IntRange(13, 20).Draw(t, "nbig")
			docs := bson.A{}
			base := rapid.IntRange(1, 9).Draw(t, "bigbase") * 100
			for i := 0; i < n; i++ {
				docs = append(docs, bson.D{{Key: "_id", Value: int32(base + i)}, {Key: "a", Value: int32(i % 3)}, {Key: "b", Value: int32(i % 2)}})
			}
			add("docs", docs)
			add("ordered", false)
			break
		}
		docs := bson.A{}
		for i := 0; i < n; i++ {
			d := p.genDoc(t, view, ns)
			if len(d) == 0 || d[0].Key != "_id" {
				d = withID(rapid.SampledFrom(p.idPool).Draw(t, "mid"), d)
			}
			docs = append(docs, d)
		}
		add("docs", docs)
		add("ordered", rapid.Bool().Draw(t, "ordered"))
	case "find":
		add("filter", p.genFilter(t, view, ns))
		add("sort", p.genSort(t))
		add("skip", int32(rapid.SampledFrom([]int{0, 0, 0, 1, 2, 5}).Draw(t, "skip")))
		add("limit", int32(rapid.SampledFrom([]int{0, 0, 0, 1, 2, 5}).Draw(t, "limit")))
		add("proj", p.genProj(t, view, ns))
	case "findOne":
		add("filter", p.genFilter(t, view, ns))
		add("sort", p.genSort(t))
		add("skip", int32(rapid.SampledFrom([]int{0, 0, 0, 1, 2}).Draw(t, "skip")))
		add("proj", p.genProj(t, view, ns))
	case "count":
		add("filter", p.genFilter(t, view, ns))
		add("skip", int32(rapid.SampledFrom([]int{0, 0, 0, 1, 2}).Draw(t, "skip")))
		add("limit", int32(rapid.SampledFrom([]int{0, 0, 0, 1, 2}).Draw(t, "limit")))
	case "estCount":
	case "distinct":
		add("field", rapid.SampledFrom([]string{"a", "b", "c", "a.b", "_id"}).Draw(t, "dfield"))
		add("filter", p.genFilter(t, view, ns))
	case "updateOne", "updateMany":
		if op == "updateMany" && len(p.tinyVals) > 0 && rapid.IntRange(0, 999).Draw(t, "shift")%5 == 2 {
			// shift every numeric value of one field (preferably an indexed
			// one): the new key of one document is the old key of another,
			// yet no two end up equal
			ks := []string{"a", "b", "c"}
			for _, kd := range view.idxKeys[ns] {
				if len(kd) == 1 && kd[0].Key != "_id" && !strings.Contains(kd[0].Key, ".") {
					ks = append(ks, kd[0].Key, kd[0].Key, kd[0].Key)
				}
			}
			k := rapid.SampledFrom(ks).Draw(t, "shiftk")
			add("filter", bson.D{{Key: k, Value: bson.D{{Key: "$gte", Value: int32(1)}, {Key: "$not", Value: bson.D{{Key: "$type", Value: "array"}}}}}})
			add("update", rapid.SampledFrom([]bson.D{
				{{Key: "$inc", Value: bson.D{{Key: k, Value: int32(1)}}}},
				{{Key: "$inc", Value: bson.D{{Key: k, Value: int32(-1)}}}},
				{{Key: "$mul", Value: bson.D{{Key: k, Value: int32(2)}}}},
				{{Key: "$bit", Value: bson.D{{Key: k, Value: bson.D{{Key: "xor", Value: int32(3)}}}}}},
			}).Draw(t, "shiftu"))
			add("upsert", false)
			break
		}
		upd, af := p.genUpdate(t, view, ns)
		if op == "updateMany" {
			add("filter", p.genFilterBroad(t, view, ns))
		} else {
			add("filter", p.genFilter(t, view, ns))
		}
		add("update", upd)
		add("upsert", rapid.IntRange(0, 3).Draw(t, "upsert") == 0)
		add("arrayFilters", af)
	case "updateByID":
		upd, _ := p.genUpdate(t, view, ns)
		docs := view.allDocs(ns)
		var id interface{}
		if len(docs) > 0 && rapid.IntRange(0, 3).Draw(t, "exid") > 0 {
			id = getD(rapid.SampledFrom(docs).Draw(t, "iddoc"), "_id")
		} else {
			id = rapid.SampledFrom(p.idPool).Draw(t, "byid")
		}
		add("id", id)
		add("update", upd)
		add("upsert", rapid.IntRange(0, 3).Draw(t, "upsert") == 0)
	case "replaceOne":
		if ds := view.allDocs(ns); len(ds) > 0 && rapid.IntRange(0, 999).Draw(t, "samerepl")%8 == 3 {
			// replace a stored document by itself (nothing changes, with or
			// without upsert, with or without the _id in the replacement)
			d := rapid.SampledFrom(ds).Draw(t, "srdoc")
			add("filter", bson.D{{Key: "_id", Value: getD(d, "_id")}})
			repl := bson.D{}
			for _, e := range d {
				if e.Key != "_id" || rapid.Bool().Draw(t, "srid") {
					repl = append(repl, e)
				}
			}
			add("repl", repl)
			add("upsert", rapid.Bool().Draw(t, "srups"))
			break
		}
		add("filter", p.genFilter(t, view, ns))
		repl := p.docGen(t, p)
		if rapid.IntRange(0, 5).Draw(t, "replid") == 0 {
			repl = withID(rapid.SampledFrom(p.idPool).Draw(t, "rid"), repl)
		}
		add("repl", repl)
		add("upsert", rapid.IntRange(0, 3).Draw(t, "upsert") == 0)
	case "deleteOne", "deleteMany":
		if op == "deleteMany" && rapid.Bool().Draw(t, "broaddel") {
			add("filter", p.genFilterBroad(t, view, ns))
		} else {
			add("filter", p.genFilter(t, view, ns))
		}
	case "findOneAndDelete":
		add("filter", p.genFilter(t, view, ns))
		add("sort", p.genSort(t))
		add("proj", p.genProj(t, view, ns))
	case "findOneAndReplace":
		add("filter", p.genFilter(t, view, ns))
		add("repl", p.docGen(t, p))
		add("sort", p.genSort(t))
		add("upsert", rapid.IntRange(0, 3).Draw(t, "upsert") == 0)
		add("after", rapid.Bool().Draw(t, "after"))
		add("proj", p.genProj(t, view, ns))
	case "findOneAndUpdate":
		upd, af := p.genUpdate(t, view, ns)
		add("filter", p.genFilter(t, view, ns))
		add("update", upd)
		add("sort", p.genSort(t))
		add("upsert", rapid.IntRange(0, 3).Draw(t, "upsert") == 0)
		add("after", rapid.Bool().Draw(t, "after"))
		add("proj", p.genProj(t, view, ns))
		add("arrayFilters", af)
	case "bulkWrite":
		n := rapid.IntRange(1, 4).Draw(t, "nmodels")
		ms := bson.A{}
		if docs := view.allDocs(ns); len(docs) > 0 && rapid.IntRange(0, 999).Draw(t, "delonly")%100 >= 50 && rapid.IntRange(0, 999).Draw(t, "delonly2")%100 < 50+p.delOnlyPct() {
			// a bulk whose only effective items are deletes
			for i := 0; i < n; i++ {
				d := rapid.SampledFrom(docs).Draw(t, "deld")
				kind := rapid.SampledFrom([]string{"deleteOne", "deleteOne", "deleteMany"}).Draw(t, "delk")
				ms = append(ms, bson.D{{Key: "kind", Value: kind}, {Key: "filter", Value: bson.D{{Key: "_id", Value: getD(d, "_id")}}}})
			}
			n = 0
		}
		for i := 0; i < n; i++ {
			ms = append(ms, p.genBulkModel(t, view, ns))
		}
		add("models", ms)
		add("ordered", rapid.Bool().Draw(t, "ordered"))
	case "createIndex":
		step = append(step, p.genIndexModel(t, view, ns)...)
	case "createIndexes":
		n := rapid.IntRange(1, 2).Draw(t, "nidx")
		ms := bson.A{}
		for i := 0; i < n; i++ {
			ms = append(ms, p.genIndexModel(t, view, ns))
		}
		add("models", ms)
	case "dropIndex":
		names := append([]string{"_id_", "a_1", "nope"}, view.indexes[ns]...)
		add("name", rapid.SampledFrom(names).Draw(t, "dname"))
	case "dropIndexKey":
		keys := append([]bson.D{{{Key: "_id", Value: int32(1)}}, {{Key: "a", Value: int32(1)}}}, view.idxKeys[ns]...)
		add("keys", rapid.SampledFrom(keys).Draw(t, "dkeys"))
	case "txnAborted":
		add("what", rapid.SampledFrom([]string{"dropColl", "dropDB", "create", "deleteAll", "expire"}).Draw(t, "awhat"))
	case "dropIndexes", "listIndexes", "createColl", "dropColl", "expire", "litter":
	case "dropDB", "listColls":
		db, _ := splitNS(ns)
		add("db", db)
	case "listCollsFull":
		db, c := splitNS(ns)
		add("db", db)
		if rapid.Bool().Draw(t, "lcf") {
			add("filter", bson.D{{Key: "name", Value: c}})
		}
	case "listDBs", "listDBsFull":
	}
	if p.storeFail > 0 && isWriteOp(op) && op != "txnAborted" {
		// rapid favours the ends of an integer range: take the percentage
		// from the middle of each hundred
		if v := rapid.IntRange(0, 999).Draw(t, "failstore") % 100; v >= 50 && v < 50+p.storeFail {
			add("failStore", true)
		}
	}
	return step
}

func sortStrings(s []string) {
	for i := 1; i < len(s); i++ {
		for j := i; j > 0 && strings.Compare(s[j-1], s[j]) > 0; j-- {
			s[j-1], s[j] = s[j], s[j-1]
		}
	}
}
