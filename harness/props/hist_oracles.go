package props

import (
	"fmt"
	"sort"
	"strings"

	"github.com/256dpi/lungo"
	"github.com/256dpi/lungo/bsonkit"
	"github.com/256dpi/lungo/mongokit"
	"go.mongodb.org/mongo-driver/bson"
	"go.mongodb.org/mongo-driver/bson/primitive"

	"verifharness/ref"
)

// ---------------------------------------------------------------- C15: index coherence

type idxInfo struct {
	cfg     string
	key     bson.D
	unique  bool
	expiry  int64
	partial bson.D // nil when the index has no partial filter
}

// requestedSame: does the index model of a createIndex step describe the same
// definition as the existing index (key, unique, expiry, partial filter)?
func requestedSame(step bson.D, old idxInfo) bool {
	if !sameKey(asD(getD(step, "keys")), old.key) || asB(getD(step, "unique")) != old.unique {
		return false
	}
	var expiry int64
	if v := getD(step, "ttl"); v != nil {
		expiry = int64(asI(v)) * 1e9
		if expiry == 0 {
			expiry = 1
		}
	}
	if expiry != old.expiry {
		return false
	}
	p := optD(step, "partial")
	if len(p) == 0 && len(old.partial) == 0 {
		return true
	}
	return len(p) > 0 && len(old.partial) > 0 && ref.Cmp(p, old.partial) == 0
}

type oracleIndex struct {
	pre                 map[string]map[string]idxInfo // ns -> name -> info, before the step
	preExists           map[string]bool
	memberChange        int
	maxIndexes          int
	checkedAfterFailure int
	reopens             int
}

func indexMap(cat *lungo.Catalog) (map[string]map[string]idxInfo, map[string]bool) {
	out := map[string]map[string]idxInfo{}
	ex := map[string]bool{}
	for h, c := range cat.Namespaces {
		if h == lungo.Oplog {
			continue
		}
		ex[h.String()] = true
		m := map[string]idxInfo{}
		for n, ix := range c.Indexes {
			cfg := ix.Config()
			info := idxInfo{cfg: indexConfigString(cfg), key: *cfg.Key, unique: cfg.Unique, expiry: int64(cfg.Expiry)}
			if cfg.Partial != nil {
				info.partial = *cfg.Partial
			}
			m[n] = info
		}
		out[h.String()] = m
	}
	return out, ex
}

func (o *oracleIndex) before(r *hRun, step bson.D) error {
	o.pre, o.preExists = indexMap(r.env.engine.Catalog())
	return nil
}

// indexMapString renders the index definitions of all namespaces canonically.
func indexMapString(m map[string]map[string]idxInfo) string {
	var nss []string
	for ns := range m {
		nss = append(nss, ns)
	}
	sort.Strings(nss)
	var sb strings.Builder
	for _, ns := range nss {
		var names []string
		for n := range m[ns] {
			names = append(names, n)
		}
		sort.Strings(names)
		for _, n := range names {
			sb.WriteString(ns + "/" + n + ": " + m[ns][n].cfg + "\n")
		}
	}
	return sb.String()
}

func derivedIndexName(keys bson.D) string {
	var segs []string
	for _, e := range keys {
		d := "1"
		if dirOf(e.Value) < 0 {
			d = "-1"
		}
		segs = append(segs, e.Key, d)
	}
	return strings.Join(segs, "_")
}

func sameKey(a, b bson.D) bool { return ref.Cmp(a, b) == 0 }

func (o *oracleIndex) after(r *hRun, step, res bson.D) error {
	cat := r.env.engine.Catalog()
	post, _ := indexMap(cat)
	op := asS(getD(step, "op"))
	ns := asS(getD(step, "ns"))
	ec := asS(getD(res, "err"))
	if r.env.storeFailed {
		// the commit could not be persisted: nothing about the indexes moves
		r.x.Class("store-failure")
		if ec == "" {
			return fmt.Errorf("the store failed but the call reported success")
		}
		if a, b := fmt.Sprint(indexMapString(o.pre)), fmt.Sprint(indexMapString(post)); a != b {
			return fmt.Errorf("the store failed but the index definitions changed:\n%s\n->\n%s", a, b)
		}
		o.checkedAfterFailure++
		return checkIndexCoherence(cat, r.x, &o.memberChange)
	}
	// ---- management clauses
	switch op {
	case "reopen", "age":
		// reloading changes no definition (what the reloaded indexes hold
		// is checked below like after any other step)
		if a, b := indexMapString(o.pre), indexMapString(post); a != b {
			return fmt.Errorf("closing and reopening the database changed the index definitions:\n%s->\n%s", a, b)
		}
		o.reopens++
		r.x.Class("reopened")
	case "createIndex":
		keys := asD(getD(step, "keys"))
		name := asS(getD(step, "name"))
		if name == "" {
			name = derivedIndexName(keys)
		}
		pre := o.pre[ns]
		if ec == "" {
			got := asS(getD(res, "name"))
			if got != name {
				return fmt.Errorf("CreateOne returned name %q, want %q", got, name)
			}
			if _, ok := post[ns][name]; !ok {
				return fmt.Errorf("CreateOne succeeded but index %q is not listed", name)
			}
			if old, existed := pre[name]; existed {
				if post[ns][name].cfg != old.cfg {
					if r.x.Known("C15-same-name-replaces-index") {
						return nil
					}
					return fmt.Errorf("CreateOne with the existing name %q and a different definition succeeded and replaced the index (%s -> %s); a conflicting index must be rejected", name, old.cfg, post[ns][name].cfg)
				}
				if !requestedSame(step, old) {
					return fmt.Errorf("CreateOne with the existing name %q and a different definition (requested %s, existing %s) succeeded; a conflicting index must be rejected", name, show(step), old.cfg)
				}
				r.x.Class("create-existing-same-definition")
			}
			for n, info := range pre {
				if n != name && sameKey(info.key, keys) {
					return fmt.Errorf("CreateOne succeeded although index %q already has the same key", n)
				}
			}
		} else {
			r.x.Class("create-index-rejected")
			if old, existed := pre[name]; existed && requestedSame(step, old) && ec != "uniq" {
				return fmt.Errorf("CreateOne of the existing index %q with the same definition failed; it must be a no-op", name)
			}
		}
	case "dropIndex":
		name := asS(getD(step, "name"))
		if name == "_id_" {
			if ec == "" {
				if r.x.Known("C15-drop-id-index") {
					return nil
				}
				return fmt.Errorf("DropOne(\"_id_\") succeeded; the _id index must never be removed")
			}
		} else if _, existed := o.pre[ns][name]; existed {
			if ec != "" {
				return fmt.Errorf("DropOne(%q) failed although the index exists", name)
			}
			if _, still := post[ns][name]; still {
				return fmt.Errorf("DropOne(%q) succeeded but the index is still there", name)
			}
		} else if ec == "" {
			return fmt.Errorf("DropOne(%q) succeeded although no such index exists", name)
		}
	case "dropIndexKey":
		keys := asD(getD(step, "keys"))
		if len(keys) == 1 && keys[0].Key == "_id" && ec == "" {
			if r.x.Known("C15-drop-id-index") {
				return nil
			}
			return fmt.Errorf("DropOneWithKey({_id: 1}) succeeded; the _id index must never be removed")
		}
	case "dropIndexes":
		if ec == "" {
			for n := range post[ns] {
				if n != "_id_" {
					return fmt.Errorf("DropAll left index %q", n)
				}
			}
		}
	}
	// ---- every collection keeps its _id index
	for nsn, m := range post {
		if _, ok := m["_id_"]; !ok {
			if r.x.Known("C15-drop-id-index") {
				return nil
			}
			return fmt.Errorf("collection %s has no _id_ index", nsn)
		}
		if len(m) > o.maxIndexes {
			o.maxIndexes = len(m)
		}
	}
	if ec != "" && isWriteOp(op) {
		o.checkedAfterFailure++
	}
	// ---- coherence of every index with its collection
	return checkIndexCoherence(cat, r.x, &o.memberChange)
}

func (o *oracleIndex) finish(r *hRun) error { return nil }

// checkIndexCoherence: every index holds exactly the collection's documents
// (those matching its partial filter), each once, in key order, and behaves
// like an index rebuilt from scratch.
func checkIndexCoherence(cat *lungo.Catalog, x *Ctx, partialMembers *int) error {
	for _, h := range nsList(cat) {
		c := cat.Namespaces[h]
		docs := c.Documents.List
		if len(c.Documents.Index) != len(docs) {
			return fmt.Errorf("%s: document set index has %d entries for %d documents", h, len(c.Documents.Index), len(docs))
		}
		for i, d := range docs {
			if j, ok := c.Documents.Index[d]; !ok || j != i {
				return fmt.Errorf("%s: document set position index is stale at %d", h, i)
			}
		}
		var names []string
		for n := range c.Indexes {
			names = append(names, n)
		}
		sort.Strings(names)
		for _, n := range names {
			ix := c.Indexes[n]
			cfg := ix.Config()
			want := map[*bson.D]bool{}
			for _, d := range docs {
				if cfg.Partial != nil {
					ok, err := mongokit.Match(d, cfg.Partial)
					if err != nil {
						return fmt.Errorf("%s index %q: partial filter fails on a stored document: %v", h, n, err)
					}
					if !ok {
						continue
					}
					if partialMembers != nil {
						*partialMembers++
					}
				}
				want[d] = true
			}
			list := ix.List()
			seen := map[*bson.D]bool{}
			for _, d := range list {
				if seen[d] {
					return fmt.Errorf("%s index %q lists a document twice", h, n)
				}
				seen[d] = true
				if !want[d] {
					if _, inColl := c.Documents.Index[d]; !inColl {
						return fmt.Errorf("%s index %q holds a document that is not in the collection: %s", h, n, show(*d))
					}
					return fmt.Errorf("%s index %q holds a document outside its partial filter: %s", h, n, show(*d))
				}
			}
			for d := range want {
				if !seen[d] {
					return fmt.Errorf("%s index %q misses document %s", h, n, show(*d))
				}
			}
			// key order (only when no listed document is multikey for this index)
			cols, err := mongokit.Columns(cfg.Key)
			if err != nil {
				return fmt.Errorf("%s index %q: invalid stored key: %v", h, n, err)
			}
			multikey := false
			for _, d := range list {
				for _, col := range cols {
					v, _ := bsonkit.All(d, col.Path, true, true)
					if _, isA := v.(bson.A); isA {
						multikey = true
					}
				}
			}
			if !multikey {
				for i := 0; i+1 < len(list); i++ {
					if bsonkit.Order(list[i], list[i+1], cols, false) > 0 {
						return fmt.Errorf("%s index %q is not in key order at position %d", h, n, i)
					}
				}
			}
			// rebuild equivalence
			fresh, err := mongokit.CreateIndex(cfg)
			if err != nil {
				return fmt.Errorf("%s index %q: cannot recreate from its own config: %v", h, n, err)
			}
			ok, err := fresh.Build(docs)
			if err != nil || !ok {
				return fmt.Errorf("%s index %q cannot be rebuilt over the collection's documents (ok=%v err=%v): the stored documents violate it", h, n, ok, err)
			}
			fl := fresh.List()
			if len(fl) != len(list) {
				return fmt.Errorf("%s index %q has %d entries, rebuilt from scratch it has %d", h, n, len(list), len(fl))
			}
			for _, d := range fl {
				if !seen[d] {
					return fmt.Errorf("%s index %q misses a document the rebuilt index has", h, n)
				}
			}
			for _, d := range docs {
				a, e1 := ix.Has(d)
				b, e2 := fresh.Has(d)
				if (e1 != nil) != (e2 != nil) || a != b {
					return fmt.Errorf("%s index %q answers Has differently from the rebuilt index for %s: %v vs %v", h, n, show(*d), a, b)
				}
			}
		}
	}
	return nil
}

// ---------------------------------------------------------------- C07: uniqueness

type oracleUnique struct {
	catB          *lungo.Catalog
	rejections    int
	multiAccepted int
	exactChecked  int
	reopens       int
}

func (o *oracleUnique) before(r *hRun, step bson.D) error {
	o.catB = r.env.engine.Catalog()
	return nil
}

func keyPaths(key bson.D) []string {
	var ps []string
	for _, e := range key {
		ps = append(ps, e.Key)
	}
	return ps
}

// collides reports whether doc shares a key tuple with any of others under
// the given unique index definition. ok=false: outside the modelled domain.
func collides(doc bson.D, others []bson.D, key bson.D, partial *bson.D) (bool, bool) {
	if partial != nil {
		m, err := ref.Match(doc, *partial)
		if err != nil {
			return false, false
		}
		if !m {
			return false, true
		}
	}
	mine, ok := ref.IndexKeys(doc, keyPaths(key))
	if !ok {
		return false, false
	}
	for _, od := range others {
		if partial != nil {
			m, err := ref.Match(od, *partial)
			if err != nil {
				return false, false
			}
			if !m {
				continue
			}
		}
		theirs, ok := ref.IndexKeys(od, keyPaths(key))
		if !ok {
			return false, false
		}
		for _, a := range mine {
			for _, b := range theirs {
				if ref.TupleEqual(a, b) {
					return true, true
				}
			}
		}
	}
	return false, true
}

func plainDocs(c *mongokit.Collection) []bson.D {
	out := make([]bson.D, 0, len(c.Documents.List))
	for _, d := range c.Documents.List {
		out = append(out, *d)
	}
	return out
}

func (o *oracleUnique) after(r *hRun, step, res bson.D) error {
	cat := r.env.engine.Catalog()
	// invariant: no two documents under a unique index share a key
	for _, h := range nsList(cat) {
		c := cat.Namespaces[h]
		docs := plainDocs(c)
		// the index that carries the _id constraint is always there
		if ix, ok := c.Indexes["_id_"]; !ok || !ix.Config().Unique {
			return fmt.Errorf("%s: the unique _id_ index is missing", h)
		}
		// _id is unique for all documents, whatever indexes exist
		for i := range docs {
			for j := i + 1; j < len(docs); j++ {
				if ref.Cmp(getD(docs[i], "_id"), getD(docs[j], "_id")) == 0 {
					return fmt.Errorf("%s: two documents have the same _id %s", h, show(getD(docs[i], "_id")))
				}
			}
		}
		for n, ix := range c.Indexes {
			cfg := ix.Config()
			if !cfg.Unique {
				continue
			}
			for i := range docs {
				hit, ok := collides(docs[i], docs[i+1:], *cfg.Key, cfg.Partial)
				if !ok {
					r.x.Class("unique-invariant-outside-domain")
					continue
				}
				if hit {
					return fmt.Errorf("%s: two documents share a key under the unique index %q (key %s): one of them is %s", h, n, show(*cfg.Key), show(docs[i]))
				}
			}
		}
	}
	if asS(getD(step, "op")) == "reopen" {
		o.reopens++
		r.x.Class("reopened")
	}
	// exactness for inserts and index builds
	op := asS(getD(step, "op"))
	ns := asS(getD(step, "ns"))
	ec := asS(getD(res, "err"))
	db, cn := splitNS(ns)
	pre := o.catB.Namespaces[lungo.Handle{db, cn}]
	switch op {
	case "insertOne":
		doc := asD(getD(step, "doc"))
		if getD(doc, "_id") == nil && (len(doc) == 0 || doc[0].Key != "_id") {
			break // generated ObjectID
		}
		if ec == "other" {
			break
		}
		predicted, known := false, true
		if pre != nil {
			docs := plainDocs(pre)
			for _, ix := range pre.Indexes {
				cfg := ix.Config()
				if !cfg.Unique {
					continue
				}
				hit, ok := collides(doc, docs, *cfg.Key, cfg.Partial)
				if !ok {
					known = false
				}
				predicted = predicted || hit
			}
		}
		if !known && !predicted {
			break
		}
		o.exactChecked++
		if predicted && ec != "uniq" {
			return fmt.Errorf("insert of %s collides with an existing key but was not rejected for uniqueness (result %s)", show(doc), show(res))
		}
		if !predicted && ec == "uniq" {
			return fmt.Errorf("insert of %s was rejected for uniqueness although no existing document shares a key", show(doc))
		}
		if ec == "uniq" {
			o.rejections++
			r.x.Class("insert-rejected-for-uniqueness")
		}
	case "createIndex":
		if !asB(getD(step, "unique")) || pre == nil || ec == "other" {
			break
		}
		keys := asD(getD(step, "keys"))
		var partial *bson.D
		if p := optD(step, "partial"); p != nil {
			partial = &p
		}
		docs := plainDocs(pre)
		predicted, known := false, true
		for i := range docs {
			hit, ok := collides(docs[i], docs[i+1:], keys, partial)
			if !ok {
				known = false
			}
			predicted = predicted || hit
		}
		if !known && !predicted {
			break
		}
		// an identical existing definition is a no-op and may succeed
		o.exactChecked++
		if predicted && ec == "" {
			name := asS(getD(res, "name"))
			if _, existed := pre.Indexes[name]; !existed {
				return fmt.Errorf("unique index %s was built over documents that share a key", show(keys))
			}
		}
		if !predicted && ec == "uniq" {
			return fmt.Errorf("unique index build over %s rejected for uniqueness although no two documents share a key", show(keys))
		}
		if ec == "uniq" {
			o.rejections++
			r.x.Class("index-build-rejected-for-uniqueness")
		}
	case "updateOne", "updateMany", "updateByID", "replaceOne":
		// a write rejected for uniqueness must really produce a duplicate:
		// the same call on a reference model of the pre-state (final-state
		// uniqueness over all documents) has to be rejected as well
		if ec == "uniq" && pre != nil {
			m := ref.NewModel()
			mc := &ref.MColl{Indexes: map[string]ref.MIndex{}}
			for _, d := range plainDocs(pre) {
				mc.Docs = append(mc.Docs, d)
			}
			for n, ix := range pre.Indexes {
				cfg := ix.Config()
				def := ref.MIndex{Key: *cfg.Key, Unique: cfg.Unique}
				if cfg.Partial != nil {
					def.Partial = *cfg.Partial
				}
				mc.Indexes[n] = def
			}
			m.Colls[ns] = mc
			var mres ref.Res
			var st ref.Status
			if op == "replaceOne" {
				mres, _, _, st = m.Replace(ns, ref.ReplaceArgs{Filter: asD(getD(step, "filter")), Repl: asD(getD(step, "repl")), Upsert: asB(getD(step, "upsert"))})
			} else {
				a := ref.UpdateArgs{Filter: asD(getD(step, "filter")), Update: asD(getD(step, "update")), ArrayFilters: toFilters(asA(getD(step, "arrayFilters"))), Upsert: asB(getD(step, "upsert")), Many: op == "updateMany"}
				if op == "updateByID" {
					a.Filter = bson.D{{Key: "_id", Value: getD(step, "id")}}
				}
				mres, _, _, st = m.Update(ns, a)
			}
			if st == ref.OK {
				o.exactChecked++
				if mres.Err == "" {
					return fmt.Errorf("%s was rejected for uniqueness although applying it leaves no two documents with the same key under any unique index (reference result: matched %d, modified %d)", op, mres.Matched, mres.Modified)
				}
				r.x.Class("rejection-confirmed-by-reference:" + op)
			} else {
				r.x.Class("rejection-outside-reference:" + op)
			}
		}
		if ec == "uniq" {
			o.rejections++
			r.x.Class("write-rejected-for-uniqueness:" + op)
		} else if ec == "" && op == "updateMany" && asI64(getD(res, "modified")) >= 2 {
			o.multiAccepted++
		}
	default:
		if ec == "uniq" {
			o.rejections++
			r.x.Class("write-rejected-for-uniqueness:" + op)
		} else if ec == "" && (op == "updateMany" || op == "bulkWrite") && asI64(getD(res, "modified")) >= 2 {
			o.multiAccepted++
		}
	}
	return nil
}

func (o *oracleUnique) finish(r *hRun) error { return nil }

// ---------------------------------------------------------------- C08: change log

type logDoc struct {
	id  []byte // BSON bytes of {_id: v}
	raw []byte
}

type oracleOplog struct {
	prev     map[string][]logDoc // ns -> ordered contents
	prevLen  int
	lastID   interface{}
	kinds    map[string]int
	multiUpd int
}

func idBytes(d bson.D) []byte {
	return marshal(bson.D{{Key: "_id", Value: getD(d, "_id")}})
}

func contentsOf(cat *lungo.Catalog) map[string][]logDoc {
	out := map[string][]logDoc{}
	for _, h := range nsList(cat) {
		var l []logDoc
		for _, d := range cat.Namespaces[h].Documents.List {
			l = append(l, logDoc{id: idBytes(*d), raw: marshal(*d)})
		}
		out[h.String()] = l
	}
	return out
}

func (o *oracleOplog) before(r *hRun, step bson.D) error {
	cat := r.env.engine.Catalog()
	o.prev = contentsOf(cat)
	o.prevLen = len(cat.Namespaces[lungo.Oplog].Documents.List)
	if o.kinds == nil {
		o.kinds = map[string]int{}
	}
	return nil
}

func getPathD(d bson.D, path string) interface{} {
	v := ref.GetPath(d, strings.Split(path, "."))
	if v == ref.Missing {
		return nil
	}
	return v
}

func (o *oracleOplog) after(r *hRun, step, res bson.D) error {
	cat := r.env.engine.Catalog()
	oplog := cat.Namespaces[lungo.Oplog].Documents.List
	if len(oplog) < o.prevLen {
		return fmt.Errorf("the change log shrank from %d to %d events without retention being due", o.prevLen, len(oplog))
	}
	events := oplog[o.prevLen:]
	op := asS(getD(step, "op"))
	ec := asS(getD(res, "err"))
	if ec != "" && !isBatchOp(op) && len(events) > 0 {
		return fmt.Errorf("a failed call logged %d event(s)", len(events))
	}
	if r.env.storeFailed {
		r.x.Class("store-failure")
		if len(events) > 0 {
			return fmt.Errorf("a call whose commit could not be stored logged %d event(s)", len(events))
		}
	}
	if op == "expire" && len(events) > 0 {
		r.x.Class("expiry-pass-with-deletions")
	}
	// replay the new events on the previous contents
	state := map[string][]logDoc{}
	for ns, l := range o.prev {
		state[ns] = append([]logDoc{}, l...)
	}
	for i, evp := range events {
		ev := *evp
		id := getD(ev, "_id")
		ts, _ := getPathD(ev, "_id.ts").(primitive.Timestamp)
		ct, _ := getD(ev, "clusterTime").(primitive.Timestamp)
		if ts != ct || ts.T == 0 {
			return fmt.Errorf("event %d: clusterTime %v differs from _id.ts %v", i, ct, ts)
		}
		if o.lastID != nil && ref.Cmp(o.lastID, id) >= 0 {
			return fmt.Errorf("event ids not strictly increasing: %s then %s", show(o.lastID), show(id))
		}
		o.lastID = id
		typ := asS(getD(ev, "operationType"))
		o.kinds[typ]++
		db := asS(getPathD(ev, "ns.db"))
		coll := asS(getPathD(ev, "ns.coll"))
		ns := db + "." + coll
		switch typ {
		case "insert", "replace", "update":
			full := asD(getD(ev, "fullDocument"))
			key := asD(getD(ev, "documentKey"))
			if full == nil || key == nil || string(idBytes(full)) != string(marshal(key)) {
				return fmt.Errorf("%s event has documentKey %s but fullDocument %s", typ, show(key), show(full))
			}
			kid := marshal(key)
			idx := -1
			for j, d := range state[ns] {
				if string(d.id) == string(kid) {
					idx = j
				}
			}
			if typ == "insert" {
				if idx >= 0 {
					return fmt.Errorf("insert event for a key that already exists: %s", show(key))
				}
				state[ns] = append(state[ns], logDoc{id: kid, raw: marshal(full)})
			} else {
				if idx < 0 {
					return fmt.Errorf("%s event for a key that does not exist: %s", typ, show(key))
				}
				if typ == "update" {
					var prevDoc bson.D
					if err := bson.Unmarshal(state[ns][idx].raw, &prevDoc); err != nil {
						return fmt.Errorf("harness: %v", err)
					}
					if err := checkUpdateDescription(prevDoc, ev, full, r.x); err != nil {
						return err
					}
				}
				if string(state[ns][idx].raw) == string(marshal(full)) {
					return fmt.Errorf("%s event for a document that did not change: %s", typ, show(full))
				}
				state[ns][idx] = logDoc{id: kid, raw: marshal(full)}
			}
		case "delete":
			key := asD(getD(ev, "documentKey"))
			if key == nil {
				return fmt.Errorf("delete event without documentKey")
			}
			kid := marshal(key)
			idx := -1
			for j, d := range state[ns] {
				if string(d.id) == string(kid) {
					idx = j
				}
			}
			if idx < 0 {
				return fmt.Errorf("delete event for a key that does not exist: %s", show(key))
			}
			state[ns] = append(state[ns][:idx:idx], state[ns][idx+1:]...)
		case "drop":
			if _, ok := state[ns]; !ok {
				return fmt.Errorf("drop event for a namespace that does not exist: %s", ns)
			}
			delete(state, ns)
		case "dropDatabase":
			for k := range state {
				if strings.HasPrefix(k, db+".") {
					return fmt.Errorf("dropDatabase event for %s but collection %s was not dropped before it", db, k)
				}
			}
		default:
			return fmt.Errorf("unknown operationType %q", typ)
		}
	}
	// the replayed state equals the current contents (documents and order);
	// collections created empty (createColl, index creation) carry no events
	cur := contentsOf(cat)
	for ns, l := range cur {
		if _, ok := state[ns]; !ok {
			if len(l) == 0 {
				state[ns] = nil
			}
		}
	}
	for ns, l := range state {
		cl, ok := cur[ns]
		if !ok {
			return fmt.Errorf("replaying the change log keeps namespace %s which no longer exists", ns)
		}
		if len(cl) != len(l) {
			return fmt.Errorf("replaying the %d new change-log event(s) gives %d documents in %s, the collection has %d", len(events), len(l), ns, len(cl))
		}
		for i := range l {
			if string(l[i].raw) != string(cl[i].raw) {
				var a, b bson.D
				_ = bson.Unmarshal(l[i].raw, &a)
				_ = bson.Unmarshal(cl[i].raw, &b)
				return fmt.Errorf("replaying the %d new change-log event(s) gives %s at position %d of %s, the collection holds %s", len(events), show(a), i, ns, show(b))
			}
		}
	}
	for ns := range cur {
		if _, ok := state[ns]; !ok {
			return fmt.Errorf("namespace %s holds documents but the change log has no events creating them", ns)
		}
	}
	if op == "updateMany" && len(events) >= 2 {
		o.multiUpd++
	}
	return nil
}

// checkUpdateDescription: previous version + updatedFields/removedFields =
// fullDocument (up to field order).
func checkUpdateDescription(prev bson.D, ev, full bson.D, x *Ctx) error {
	desc := asD(getD(ev, "updateDescription"))
	if desc == nil {
		return fmt.Errorf("update event without updateDescription")
	}
	doc := deepCopyBin(prev).(bson.D)
	upd := asD(getD(desc, "updatedFields"))
	// apply shorter paths first so that parents exist
	paths := make([]string, 0, len(upd))
	for _, e := range upd {
		paths = append(paths, e.Key)
	}
	sort.Strings(paths)
	for _, p := range paths {
		nv, err := ref.SetPath(doc, strings.Split(p, "."), deepCopyBin(getD(upd, p)))
		if err != nil {
			return fmt.Errorf("update event: updatedFields path %q cannot be applied to the previous version %s", p, show(prev))
		}
		doc = nv.(bson.D)
	}
	for _, rp := range asA(getD(desc, "removedFields")) {
		nv, _ := ref.UnsetPath(doc, strings.Split(asS(rp), "."))
		doc = nv.(bson.D)
	}
	if !equalUpToFieldOrder(doc, full) {
		if len(upd) == 0 && len(asA(getD(desc, "removedFields"))) == 0 && x.Known("C08-empty-each-push-unrecorded") {
			return nil
		}
		return fmt.Errorf("update event is not faithful: previous version %s + updateDescription %s gives %s, fullDocument is %s", show(prev), show(desc), show(doc), show(full))
	}
	return nil
}

func (o *oracleOplog) finish(r *hRun) error {
	if len(o.kinds) >= 3 {
		r.x.Class("history-with>=3-event-kinds")
	}
	if o.multiUpd >= 1 {
		r.x.Class("history-with-multi-document-update")
	}
	n := 0
	for _, c := range o.kinds {
		n += c
	}
	r.x.Rec.ClassN("events-replayed", n)
	return nil
}
