package props

import (
	"math"
	"testing"

	"go.mongodb.org/mongo-driver/bson"
	"go.mongodb.org/mongo-driver/bson/primitive"

	"verifharness/gen"
)

// Profiles and registrations of the history-based properties that need no
// reference model: C02, C07, C08, C15, C17.

var collideVals = []interface{}{int32(1), float64(1), int64(1), gen.D128("1"), "1", nil, int32(2), bson.A{int32(1), int32(2)}, bson.A{int32(2), int32(3)}, bson.A{}, bson.D{{Key: "x", Value: int32(1)}}, "x", int32(3), bson.A{int32(1), int32(1)}, bson.A{bson.D{{Key: "b", Value: int32(1)}}}, bson.A{bson.D{{Key: "b", Value: "x"}}, bson.D{{Key: "b", Value: int32(2)}}}}

func writeWeights(extra map[string]int) map[string]int {
	w := map[string]int{
		"insertOne": 10, "insertMany": 6, "updateOne": 6, "updateMany": 8, "updateByID": 2, "replaceOne": 5,
		"deleteOne": 3, "deleteMany": 2, "findOneAndDelete": 2, "findOneAndReplace": 2, "findOneAndUpdate": 3,
		"bulkWrite": 6, "createIndex": 5, "createIndexes": 1, "dropIndex": 1, "dropIndexKey": 1, "dropIndexes": 1,
		"createColl": 1, "dropColl": 1, "dropDB": 1, "find": 3, "findOne": 1, "count": 1, "distinct": 1, "listIndexes": 1, "listCollsFull": 1, "listDBsFull": 1,
	}
	for k, v := range extra {
		w[k] = v
	}
	return w
}

var profFailing = &hProfile{name: "failing", cfg: gen.Core, weights: writeWeights(map[string]int{"updateMany": 12, "insertMany": 9, "bulkWrite": 9, "createIndex": 7, "txnAborted": 2}), nss: allNS, docGen: defaultDocGen, idPool: simpleIDs, tinyVals: collideVals, storeFail: 5}

// collideFracVals adds fractions to collideVals: the double 0.1 and the
// decimal 0.1 are different numbers, 2^-40 as a double and written out as a
// decimal are the same number (and so are both spellings of 0.5).
var collideFracVals = append(append(append([]interface{}{}, collideVals[:4]...),
	float64(0.1), gen.D128("0.1"), math.Pow(2, -40), gen.D128("9.094947017729282379150390625E-13"), float64(0.5), gen.D128("0.5")), collideVals[4:]...)

var profCollide = &hProfile{name: "collide", cfg: gen.Core, weights: writeWeights(map[string]int{"createIndex": 9, "updateMany": 10, "replaceOne": 7}), nss: []string{"d1.c1", "d1.c1", "d1.c2"}, docGen: defaultDocGen, idPool: baseIDs, tinyVals: collideFracVals}

var profIndex = &hProfile{name: "index", cfg: gen.Core, weights: writeWeights(map[string]int{"createIndex": 10, "createIndexes": 3, "dropIndex": 3, "dropIndexKey": 2, "dropIndexes": 2, "updateMany": 9, "txnAborted": 1}), nss: []string{"d1.c1", "d1.c1", "d1.c2"}, docGen: defaultDocGen, idPool: simpleIDs, tinyVals: collideVals, storeFail: 4}

// the change-log profile also stores dates (one long expired, one far in the
// future) under TTL indexes and runs expiry passes, abandoned engine
// transactions and commits whose Store call fails
var oplogVals = append(append([]interface{}{}, collideVals...), primitive.DateTime(0), primitive.DateTime(0), primitive.DateTime(1000), primitive.DateTime(0), primitive.DateTime(4102444800000), bson.A{primitive.DateTime(0), primitive.DateTime(4102444800000)})

var profOplog = &hProfile{name: "oplog", cfg: gen.Core, weights: writeWeights(map[string]int{"updateMany": 10, "dropColl": 2, "dropDB": 2, "createIndex": 5, "expire": 5, "txnAborted": 2}), nss: allNS, docGen: defaultDocGen, idPool: baseIDs, tinyVals: oplogVals, ttl: true, storeFail: 6, ttlBoost: 40}

var profAlias = &hProfile{name: "alias", cfg: gen.Wide, weights: writeWeights(map[string]int{"find": 8, "findOne": 4, "distinct": 6, "listIndexes": 2, "insertOne": 12, "watchProbe": 2}), nss: []string{"d1.c1", "d1.c1", "d1.c2"}, docGen: defaultDocGen, idPool: baseIDs}

func regHistory(id, sub string, p *hProfile, mk func() []hOracle, minSteps, maxSteps int, nt func(r *hRun) bool) *Prop {
	return Register(&Prop{ID: id, Sub: sub, Live: liveHistory(p, mk, minSteps, maxSteps, nt), Run: runHistory(mk, nt)})
}

// C02
var propC02 = regHistory("C02", "history", profFailing, func() []hOracle { return []hOracle{&oracleAtomic{}} }, 8, 30, func(r *hRun) bool {
	o := r.oracles[0].(*oracleAtomic)
	return o.failAtK+o.multiFail >= 1
})

func TestProp_C02_history(t *testing.T) { propC02.Check(t) }

// C07
var propC07 = regHistory("C07", "history", profCollide, func() []hOracle { return []hOracle{&oracleUnique{}} }, 8, 30, func(r *hRun) bool {
	o := r.oracles[0].(*oracleUnique)
	return o.rejections >= 1 && (o.multiAccepted >= 1 || o.exactChecked >= 3)
})

func TestProp_C07_history(t *testing.T) { propC07.Check(t) }

// C07 on the single-file store with reopen steps: the constraints are the
// reloaded ones
var profCollidePersist = func() *hProfile {
	p := *profCollide
	p.name = "collide-persist"
	p.weights = map[string]int{}
	for k, v := range profCollide.weights {
		p.weights[k] = v
	}
	p.weights["reopen"] = 6
	return &p
}()

var propC07Persist = Register(&Prop{ID: "C07", Sub: "persist",
	Live: liveHistoryOn(openFile, profCollidePersist, func() []hOracle { return []hOracle{&oracleUnique{}} }, 8, 24, func(r *hRun) bool {
		o := r.oracles[0].(*oracleUnique)
		return o.rejections >= 1 && o.reopens >= 1
	}),
	Run: runHistoryOn(openFile, func() []hOracle { return []hOracle{&oracleUnique{}} }, func(r *hRun) bool {
		o := r.oracles[0].(*oracleUnique)
		return o.rejections >= 1 && o.reopens >= 1
	})})

func TestProp_C07_persist(t *testing.T) { propC07Persist.Check(t) }

// C15
var propC15 = regHistory("C15", "history", profIndex, func() []hOracle { return []hOracle{&oracleIndex{}} }, 8, 30, func(r *hRun) bool {
	o := r.oracles[0].(*oracleIndex)
	return o.maxIndexes >= 3 && o.checkedAfterFailure >= 1
})

func TestProp_C15_history(t *testing.T) { propC15.Check(t) }

// C15 on the single-file store with reopen steps ("including after reopening
// the file"): definitions survive, reloaded indexes are coherent
var profIndexPersist = func() *hProfile {
	p := *profIndex
	p.name = "index-persist"
	p.storeFail = 0
	p.weights = map[string]int{}
	for k, v := range profIndex.weights {
		p.weights[k] = v
	}
	p.weights["reopen"] = 6
	delete(p.weights, "txnAborted")
	return &p
}()

var propC15Persist = Register(&Prop{ID: "C15", Sub: "persist",
	Live: liveHistoryOn(openFile, profIndexPersist, func() []hOracle { return []hOracle{&oracleIndex{}} }, 8, 24, func(r *hRun) bool {
		o := r.oracles[0].(*oracleIndex)
		return o.maxIndexes >= 3 && o.reopens >= 1
	}),
	Run: runHistoryOn(openFile, func() []hOracle { return []hOracle{&oracleIndex{}} }, func(r *hRun) bool {
		o := r.oracles[0].(*oracleIndex)
		return o.maxIndexes >= 3 && o.reopens >= 1
	})})

func TestProp_C15_persist(t *testing.T) { propC15Persist.Check(t) }

// C08
var propC08 = regHistory("C08", "history", profOplog, func() []hOracle { return []hOracle{&oracleOplog{}} }, 8, 30, func(r *hRun) bool {
	o := r.oracles[0].(*oracleOplog)
	return len(o.kinds) >= 3 && o.multiUpd >= 1
})

func TestProp_C08_history(t *testing.T) { propC08.Check(t) }

// C17
var propC17 = regHistory("C17", "history", profAlias, func() []hOracle { return []hOracle{&oracleAlias{}} }, 6, 24, func(r *hRun) bool {
	o := r.oracles[0].(*oracleAlias)
	return o.scribbledNested >= 1
})

func TestProp_C17_history(t *testing.T) { propC17.Check(t) }
