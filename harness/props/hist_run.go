package props

import (
	"context"
	"fmt"
	"sort"
	"strconv"
	"strings"
	"time"

	"github.com/256dpi/lungo"
	"go.mongodb.org/mongo-driver/bson"
	"pgregory.net/rapid"
)

// hOracle observes a history.
type hOracle interface {
	before(r *hRun, step bson.D) error
	after(r *hRun, step, res bson.D) error
	finish(r *hRun) error
}

// hRun is one execution of a history.
type hRun struct {
	env     *hEnv
	x       *Ctx
	stepNo  int
	oracles []hOracle
	// counters usable by NT rules
	effectiveWrites map[string]int
	failedWrites    int
}

func isWriteOp(op string) bool {
	switch op {
	case "find", "findOne", "count", "estCount", "distinct", "listIndexes", "listColls", "listDBs", "listCollsFull", "listDBsFull", "litter":
		return false
	}
	return true
}

func (r *hRun) view() *hView {
	v := &hView{docs: map[string][]bson.D{}, indexes: map[string][]string{}, idxKeys: map[string][]bson.D{}}
	cat := r.env.engine.Catalog()
	for h, c := range cat.Namespaces {
		if h == lungo.Oplog {
			continue
		}
		ns := h.String()
		for _, d := range c.Documents.List {
			v.docs[ns] = append(v.docs[ns], deepCopyBin(*d).(bson.D))
		}
		var names []string
		for n := range c.Indexes {
			names = append(names, n)
		}
		sort.Strings(names)
		for _, n := range names {
			v.indexes[ns] = append(v.indexes[ns], n)
			v.idxKeys[ns] = append(v.idxKeys[ns], *c.Indexes[n].Config().Key)
		}
	}
	return v
}

// doStep executes one step with all oracles around it.
func (r *hRun) doStep(step bson.D) error {
	r.stepNo++
	for _, o := range r.oracles {
		if err := o.before(r, step); err != nil {
			return fmt.Errorf("step %d %s: %v", r.stepNo, show(step), err)
		}
	}
	docsBefore := totalDocs(r.env.engine.Catalog())
	res, perr := r.env.execStep(step)
	if perr != nil {
		return fmt.Errorf("step %d: %v", r.stepNo, perr)
	}
	op := asS(getD(step, "op"))
	// conservation, independent of every other oracle: the database holds as
	// many more (fewer) documents as the call reports inserted and upserted
	// (deleted)
	if d, known := expectedDocDelta(op, res); known && r.env.engine != nil {
		if delta := totalDocs(r.env.engine.Catalog()) - docsBefore; delta != d {
			return fmt.Errorf("step %d %s -> %s: the number of stored documents changed by %+d, the result reports %+d", r.stepNo, show(step), show(res), delta, d)
		}
	}
	if isWriteOp(op) {
		if asS(getD(res, "err")) != "" {
			r.failedWrites++
		} else if effective(res) {
			r.effectiveWrites[op]++
		}
	}
	for _, o := range r.oracles {
		if err := o.after(r, step, res); err != nil {
			return fmt.Errorf("step %d %s -> %s: %v", r.stepNo, show(step), show(res), err)
		}
	}
	return nil
}

func asI64(v interface{}) int64 {
	switch n := v.(type) {
	case int32:
		return int64(n)
	case int64:
		return n
	case float64:
		return int64(n)
	}
	return 0
}

// effective: the successful write changed something according to its own result.
func effective(res bson.D) bool {
	if getD(res, "id") != nil || getD(res, "doc") != nil {
		return true
	}
	if a := asA(getD(res, "ids")); len(a) > 0 {
		return true
	}
	for _, k := range []string{"modified", "upserted", "deleted", "inserted"} {
		if asI64(getD(res, k)) > 0 {
			return true
		}
	}
	if getD(res, "name") != nil || getD(res, "names") != nil {
		return true
	}
	return false
}

func (r *hRun) finish() error {
	for _, o := range r.oracles {
		if err := o.finish(r); err != nil {
			return err
		}
	}
	return nil
}

// liveHistory builds the Live function of a history property.
func liveHistory(p *hProfile, mk func() []hOracle, minSteps, maxSteps int, nt func(r *hRun) bool) func(t *rapid.T, x *Ctx) (bson.D, error) {
	return liveHistoryOn(openMem, p, mk, minSteps, maxSteps, nt)
}

func liveHistoryOn(openEnv func() (*hEnv, error), p *hProfile, mk func() []hOracle, minSteps, maxSteps int, nt func(r *hRun) bool) func(t *rapid.T, x *Ctx) (bson.D, error) {
	return func(t *rapid.T, x *Ctx) (bson.D, error) {
		env, err := openEnv()
		if err != nil {
			return nil, fmt.Errorf("harness: %v", err)
		}
		defer env.close()
		r := &hRun{env: env, x: x, oracles: mk(), effectiveWrites: map[string]int{}}
		n := rapid.IntRange(minSteps, maxSteps).Draw(t, "nsteps")
		steps := bson.A{}
		mkCase := func() bson.D { return bson.D{{Key: "profile", Value: p.name}, {Key: "steps", Value: steps}} }
		trk := newOIDTracker()
		for i := 0; i < n; i++ {
			step := p.genStep(t, r.view())
			steps = append(steps, step)
			err := r.doStep(step)
			if ids := trk.fresh(env.engine.Catalog()); len(ids) > 0 {
				steps[len(steps)-1] = append(step[:len(step):len(step)], bson.E{Key: "oids", Value: ids})
			}
			if err != nil {
				return mkCase(), err
			}
		}
		if err := r.finish(); err != nil {
			return mkCase(), err
		}
		if nt(r) {
			x.NonTrivial()
		}
		return mkCase(), nil
	}
}

// runHistory replays a recorded history.
func runHistory(mk func() []hOracle, nt func(r *hRun) bool) func(c bson.D, x *Ctx) error {
	return runHistoryOn(openMem, mk, nt)
}

func runHistoryOn(openEnv func() (*hEnv, error), mk func() []hOracle, nt func(r *hRun) bool) func(c bson.D, x *Ctx) error {
	return func(c bson.D, x *Ctx) error {
		env, err := openEnv()
		if err != nil {
			return fmt.Errorf("harness: %v", err)
		}
		defer env.close()
		r := &hRun{env: env, x: x, oracles: mk(), effectiveWrites: map[string]int{}}
		trk := newOIDTracker()
		for _, s := range asA(getD(c, "steps")) {
			rec := getD(asD(s), "oids")
			step := trk.subst(withoutKey(asD(s), "oids")).(bson.D)
			err := r.doStep(step)
			trk.learn(rec, env.engine.Catalog())
			if err != nil {
				return err
			}
		}
		if err := r.finish(); err != nil {
			return err
		}
		if nt(r) {
			x.NonTrivial()
		}
		return nil
	}
}

// ---------------------------------------------------------------- seeding a second engine

// sharedStore hands a catalog to a new engine. The catalog's namespaces are
// shared with the source (collections are copy-on-write inside lungo).
type sharedStore struct{ cat *lungo.Catalog }

func (s *sharedStore) Load() (*lungo.Catalog, error) { return s.cat, nil }
func (s *sharedStore) Store(c *lungo.Catalog) error  { s.cat = c; return nil }

func openFrom(cat *lungo.Catalog) (*hEnv, error) {
	client, engine, err := lungo.Open(context.Background(), lungo.Options{Store: &sharedStore{cat: cat.Clone()}, ExpireInterval: 24 * time.Hour})
	if err != nil {
		return nil, err
	}
	return &hEnv{client: client, engine: engine}, nil
}

// ---------------------------------------------------------------- C02: atomicity of failing writes

type oracleAtomic struct {
	catB       *lungo.Catalog
	dumpB      string
	matchedB   int64
	failAtK    int // counted for NT
	multiFail  int
	storeFails int
}

func (o *oracleAtomic) before(r *hRun, step bson.D) error {
	o.catB = r.env.engine.Catalog()
	o.dumpB = catalogDump(o.catB, false)
	o.matchedB = -1
	op := asS(getD(step, "op"))
	if op == "updateMany" || op == "deleteMany" {
		// how many documents does the filter select (for the NT rule only)
		if n, err := r.env.coll(asS(getD(step, "ns"))).CountDocuments(context.Background(), freshD(asD(getD(step, "filter")))); err == nil {
			o.matchedB = n
		}
	}
	return nil
}

func (o *oracleAtomic) after(r *hRun, step, res bson.D) error {
	op := asS(getD(step, "op"))
	ec := asS(getD(res, "err"))
	dumpA := catalogDump(r.env.engine.Catalog(), false)
	if !isWriteOp(op) {
		if dumpA != o.dumpB {
			return fmt.Errorf("a read changed the database state")
		}
		return nil
	}
	if r.env.storeFailed {
		// the commit could not be persisted: the call fails as a whole
		r.x.Class("store-failure:" + op)
		if ec == "" {
			return fmt.Errorf("the store failed but the call reported success")
		}
		if dumpA != o.dumpB {
			return fmt.Errorf("the store failed and the call returned an error but the database changed:\n--- before\n%s--- after\n%s", o.dumpB, dumpA)
		}
		o.storeFails++
		return nil
	}
	switch op {
	case "insertMany", "bulkWrite", "createIndexes":
		return o.checkBatch(r, step, res, dumpA)
	}
	if ec != "" {
		r.x.Class("failed-single-write:" + op)
		if dumpA != o.dumpB {
			return fmt.Errorf("the call returned an error but the database changed:\n--- before\n%s--- after\n%s", o.dumpB, dumpA)
		}
		if o.matchedB >= 2 {
			o.multiFail++
			r.x.Class("failed-multi-document-write")
		}
	}
	return nil
}

// checkBatch: exactly the items that individually succeed take effect.
func (o *oracleAtomic) checkBatch(r *hRun, step, res bson.D, dumpA string) error {
	op := asS(getD(step, "op"))
	ns := asS(getD(step, "ns"))
	e2, err := openFrom(o.catB)
	if err != nil {
		return fmt.Errorf("harness: %v", err)
	}
	defer e2.close()
	ordered := asB(getD(step, "ordered"))
	var items []bson.D
	switch op {
	case "insertMany":
		for _, d := range asA(getD(step, "docs")) {
			items = append(items, bson.D{{Key: "op", Value: "insertOne"}, {Key: "ns", Value: ns}, {Key: "doc", Value: d}})
		}
	case "createIndexes":
		ordered = true
		for _, m := range asA(getD(step, "models")) {
			items = append(items, append(bson.D{{Key: "op", Value: "createIndex"}, {Key: "ns", Value: ns}}, asD(m)...))
		}
	case "bulkWrite":
		for _, m := range asA(getD(step, "models")) {
			md := asD(m)
			it := bson.D{{Key: "op", Value: asS(getD(md, "kind"))}, {Key: "ns", Value: ns}}
			for _, e := range md {
				if e.Key != "kind" {
					it = append(it, e)
				}
			}
			items = append(items, it)
		}
	}
	var failedIdx []int
	var inserted, matched, modified, deleted, upserted int64
	var okIDs bson.A
	for i, it := range items {
		ir, perr := e2.execStep(it)
		if perr != nil {
			return fmt.Errorf("item %d applied alone panicked: %v", i, perr)
		}
		if asS(getD(ir, "err")) != "" {
			failedIdx = append(failedIdx, i)
			if ordered {
				break
			}
			continue
		}
		switch asS(getD(it, "op")) {
		case "insertOne":
			inserted++
			okIDs = append(okIDs, getD(ir, "id"))
		default:
			matched += asI64(getD(ir, "matched"))
			modified += asI64(getD(ir, "modified"))
			deleted += asI64(getD(ir, "deleted"))
			upserted += asI64(getD(ir, "upserted"))
		}
	}
	want := catalogDump(e2.engine.Catalog(), true)
	got := catalogDump(r.env.engine.Catalog(), true)
	if want != got {
		return fmt.Errorf("after the batch the database differs from applying exactly the individually succeeding items (failed items %v, ordered=%v):\n--- batch\n%s--- item by item\n%s", failedIdx, ordered, got, want)
	}
	ec := asS(getD(res, "err"))
	if (len(failedIdx) > 0) != (ec != "") {
		return fmt.Errorf("batch error=%q but items failing individually: %v", ec, failedIdx)
	}
	switch op {
	case "insertMany":
		ids := asA(getD(res, "ids"))
		if string(marshal(bson.D{{Key: "v", Value: ids}})) != string(marshal(bson.D{{Key: "v", Value: okIDs}})) && !(len(ids) == 0 && len(okIDs) == 0) {
			return fmt.Errorf("InsertedIDs %s, but the items that succeed individually have ids %s", show(ids), show(okIDs))
		}
	case "bulkWrite":
		if ec == "" || getD(res, "inserted") != nil {
			if asI64(getD(res, "inserted")) != inserted || asI64(getD(res, "matched")) != matched || asI64(getD(res, "modified")) != modified || asI64(getD(res, "deleted")) != deleted || asI64(getD(res, "upserted")) != upserted {
				return fmt.Errorf("bulk counts %s differ from the sum of the individually applied items (inserted=%d matched=%d modified=%d deleted=%d upserted=%d)", show(res), inserted, matched, modified, deleted, upserted)
			}
		}
		var gotIdx []int
		for _, f := range asA(getD(res, "failed")) {
			gotIdx = append(gotIdx, asI(getD(asD(f), "i")))
		}
		if fmt.Sprint(gotIdx) != fmt.Sprint(failedIdx) {
			return fmt.Errorf("bulk reports failed items %v, individually failing items are %v", gotIdx, failedIdx)
		}
	}
	if len(failedIdx) > 0 {
		r.x.Class("failed-batch:" + op)
		if failedIdx[0] >= 1 && len(items) >= 2 {
			o.failAtK++
			r.x.Class("batch-failed-at-k>=2")
		}
	}
	return nil
}

func (o *oracleAtomic) finish(r *hRun) error { return nil }

// ---------------------------------------------------------------- C17: aliasing

// oracleAlias: every call runs on private argument objects; right after the
// call the state is dumped, then every argument object and every returned
// value is overwritten in place; the state must not move, reads must repeat.
type oracleAlias struct {
	dumpAfterCall   string
	scribbledNested int
}

func (o *oracleAlias) before(r *hRun, step bson.D) error {
	r.env.scribble = true
	r.env.argViolation = ""
	r.env.afterCall = func() { o.dumpAfterCall = catalogDump(r.env.engine.Catalog(), false) }
	return nil
}

func hasNestedContainer(v interface{}, depth int) bool {
	switch x := v.(type) {
	case bson.D:
		if depth >= 1 {
			return true
		}
		for _, e := range x {
			if hasNestedContainer(e.Value, depth+1) {
				return true
			}
		}
	case bson.A:
		if depth >= 1 {
			return true
		}
		for _, e := range x {
			if hasNestedContainer(e, depth+1) {
				return true
			}
		}
	}
	return false
}

func (o *oracleAlias) after(r *hRun, step, res bson.D) error {
	if r.env.argViolation != "" {
		return fmt.Errorf("%s", r.env.argViolation)
	}
	now := catalogDump(r.env.engine.Catalog(), false)
	if now != o.dumpAfterCall {
		return fmt.Errorf("overwriting the call's arguments and returned values changed the database:\n--- right after the call\n%s--- after overwriting\n%s", o.dumpAfterCall, now)
	}
	op := asS(getD(step, "op"))
	if !isWriteOp(op) {
		// the same read again returns the same values
		r.env.afterCall = nil
		res2, perr := r.env.execStep(step)
		if perr != nil {
			return perr
		}
		if !equalUpToFieldOrder(res, res2) {
			return fmt.Errorf("the same read returned different values after the first result was overwritten: %s vs %s", show(res), show(res2))
		}
	}
	if op == "bulkWrite" {
		// the result describes this call only: every reported upserted id
		// belongs to an upserting model of this call (a result object shared
		// with earlier calls shows what the caller wrote into those)
		if ups, ok := getD(res, "upsertedIDs").(bson.D); ok {
			models := asA(getD(step, "models"))
			for _, e := range ups {
				i, cerr := strconv.Atoi(e.Key)
				valid := cerr == nil && i >= 0 && i < len(models)
				if valid {
					md := asD(models[i])
					valid = asB(getD(md, "upsert"))
				}
				if !valid {
					return fmt.Errorf("BulkWrite reports the upserted id %s for operation %s, which is not an upserting operation of this call (%d operations)", show(e.Value), e.Key, len(models))
				}
			}
			if n, ok := getD(res, "upserted").(int64); ok && int(n) != len(ups) {
				return fmt.Errorf("BulkWrite reports UpsertedCount %d and %d upserted ids", n, len(ups))
			}
		}
	}
	for _, e := range res {
		if e.Key != "err" && hasNestedContainer(e.Value, 0) {
			o.scribbledNested++
			r.x.Class("returned-nested-value-overwritten")
			break
		}
	}
	return nil
}

func (o *oracleAlias) finish(r *hRun) error { return nil }

// ---------------------------------------------------------------- helpers shared by oracles

func nsList(cat *lungo.Catalog) []lungo.Handle {
	var hs []lungo.Handle
	for h := range cat.Namespaces {
		if h != lungo.Oplog {
			hs = append(hs, h)
		}
	}
	sort.Slice(hs, func(i, j int) bool { return hs[i].String() < hs[j].String() })
	return hs
}

func isBatchOp(op string) bool {
	return op == "insertMany" || op == "bulkWrite" || op == "createIndexes"
}

var _ = strings.Contains
