package props

import (
	"encoding/json"
	"os"
)

// knownOpen is the set of open known-finding classes, read (never written)
// from /verif/known_findings.json. A class listed there as "open" is excluded
// from the generated campaigns through a narrow predicate at the place where
// the discrepancy is detected, and counted; a "fixed" entry suppresses nothing.
var knownOpen = map[string]bool{}

type knownFile struct {
	Findings []struct {
		Property string `json:"property"`
		ID       string `json:"id"`
		Status   string `json:"status"`
		What     string `json:"what"`
		Replay   string `json:"replay"`
	} `json:"findings"`
}

func init() {
	path := os.Getenv("VERIF_KNOWN")
	if path == "" {
		path = "/verif/known_findings.json"
	}
	b, err := os.ReadFile(path)
	if err != nil {
		return
	}
	var kf knownFile
	if json.Unmarshal(b, &kf) != nil {
		return
	}
	for _, f := range kf.Findings {
		if f.Status == "open" {
			knownOpen[f.ID] = true
		}
	}
}
