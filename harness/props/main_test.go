package props

import (
	"fmt"
	"os"
	"strings"
	"testing"

	"verifharness/stats"
)

func TestMain(m *testing.M) {
	code := m.Run()
	stats.Flush()
	os.Exit(code)
}

// TestReplay re-executes saved cases (VERIF_REPLAY_FILES, ':'-separated)
// without rapid and prints one machine-readable line per file.
func TestReplay(t *testing.T) {
	files := os.Getenv("VERIF_REPLAY_FILES")
	if files == "" {
		t.Skip("no replay files")
	}
	for _, f := range strings.Split(files, ":") {
		if f == "" {
			continue
		}
		prop, err, loadErr := ReplayOne(f)
		switch {
		case loadErr != nil:
			fmt.Printf("REPLAY-RESULT file=%s property=%s status=error msg=%q\n", f, prop, loadErr.Error())
		case err != nil:
			msg := err.Error()
			if len(msg) > 300 {
				msg = msg[:300]
			}
			fmt.Printf("REPLAY-RESULT file=%s property=%s status=fail msg=%q\n", f, prop, msg)
		default:
			fmt.Printf("REPLAY-RESULT file=%s property=%s status=pass\n", f, prop)
		}
	}
}
