package props

import (
	"sort"

	"github.com/256dpi/lungo"
	"go.mongodb.org/mongo-driver/bson"
	"go.mongodb.org/mongo-driver/bson/primitive"

	"verifharness/gen"
)

// Generated ObjectIDs differ between a live run and its replay, and live
// histories draw filters from stored documents: a recorded filter may name a
// generated id. oidTracker makes such histories replayable. In a live run it
// notes, after every step, the generated ids that appeared in stored
// documents (in order of appearance); the list is recorded with the step. In
// a replay the ids appearing after the same step are matched to the recorded
// ones by position and later steps are rewritten through that mapping.
type oidTracker struct {
	known map[primitive.ObjectID]bool
	m     map[primitive.ObjectID]primitive.ObjectID // recorded -> actual
}

func newOIDTracker() *oidTracker {
	return &oidTracker{known: map[primitive.ObjectID]bool{}, m: map[primitive.ObjectID]primitive.ObjectID{}}
}

func collectOIDs(v interface{}, f func(primitive.ObjectID)) {
	switch x := v.(type) {
	case bson.D:
		for _, e := range x {
			collectOIDs(e.Value, f)
		}
	case bson.A:
		for _, e := range x {
			collectOIDs(e, f)
		}
	case primitive.ObjectID:
		if x != gen.OID1 && x != gen.OID2 {
			f(x)
		}
	}
}

// fresh returns the generated ids in stored documents that were not seen before.
func (o *oidTracker) fresh(cat *lungo.Catalog) bson.A {
	var handles []lungo.Handle
	for h := range cat.Namespaces {
		if h != lungo.Oplog {
			handles = append(handles, h)
		}
	}
	sort.Slice(handles, func(i, j int) bool { return handles[i].String() < handles[j].String() })
	out := bson.A{}
	for _, h := range handles {
		for _, d := range cat.Namespaces[h].Documents.List {
			collectOIDs(*d, func(id primitive.ObjectID) {
				if !o.known[id] {
					o.known[id] = true
					out = append(out, id)
				}
			})
		}
	}
	return out
}

// learn matches the ids recorded after a step with the ids that appeared now.
func (o *oidTracker) learn(recorded interface{}, cat *lungo.Catalog) {
	act := o.fresh(cat)
	rec, _ := recorded.(bson.A)
	for i := 0; i < len(rec) && i < len(act); i++ {
		if r, ok := rec[i].(primitive.ObjectID); ok {
			o.m[r] = act[i].(primitive.ObjectID)
		}
	}
}

// subst rewrites recorded generated ids to the ids of this run.
func (o *oidTracker) subst(v interface{}) interface{} {
	if len(o.m) == 0 {
		return v
	}
	switch x := v.(type) {
	case bson.D:
		out := make(bson.D, len(x))
		for i, e := range x {
			out[i] = bson.E{Key: e.Key, Value: o.subst(e.Value)}
		}
		return out
	case bson.A:
		out := make(bson.A, len(x))
		for i, e := range x {
			out[i] = o.subst(e)
		}
		return out
	case primitive.ObjectID:
		if a, ok := o.m[x]; ok {
			return a
		}
	}
	return v
}

// withoutKey returns d without the given top-level key.
func withoutKey(d bson.D, key string) bson.D {
	out := make(bson.D, 0, len(d))
	for _, e := range d {
		if e.Key != key {
			out = append(out, e)
		}
	}
	return out
}
