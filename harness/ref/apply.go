package ref

import (
	"math"
	"math/big"
	"sort"
	"strings"

	"go.mongodb.org/mongo-driver/bson"
	"go.mongodb.org/mongo-driver/bson/primitive"
)

func CloneV(v interface{}) interface{} {
	switch x := v.(type) {
	case bson.D:
		o := make(bson.D, len(x))
		for i, e := range x {
			o[i] = bson.E{Key: e.Key, Value: CloneV(e.Value)}
		}
		return o
	case bson.A:
		o := make(bson.A, len(x))
		for i, e := range x {
			o[i] = CloneV(e)
		}
		return o
	}
	return v
}

// GetPath reads without implicit traversal (update path semantics).
func GetPath(v interface{}, comps []string) interface{} {
	if len(comps) == 0 {
		return v
	}
	switch x := v.(type) {
	case bson.D:
		if c, ok := get(x, comps[0]); ok {
			return GetPath(c, comps[1:])
		}
	case bson.A:
		if i, ok := isIndex(comps[0]); ok && i < len(x) {
			return GetPath(x[i], comps[1:])
		}
	}
	return Missing
}

func build(comps []string, v interface{}) interface{} {
	for i := len(comps) - 1; i >= 0; i-- {
		v = bson.D{{Key: comps[i], Value: v}}
	}
	return v
}

// SetPath returns the new container or ErrInvalid.
func SetPath(cur interface{}, comps []string, v interface{}) (interface{}, error) {
	if len(comps) == 0 {
		return v, nil
	}
	k := comps[0]
	switch x := cur.(type) {
	case bson.D:
		for i := range x {
			if x[i].Key == k {
				nv, err := SetPath(x[i].Value, comps[1:], v)
				if err != nil {
					return nil, err
				}
				x[i].Value = nv
				return x, nil
			}
		}
		return append(x, bson.E{Key: k, Value: build(comps[1:], v)}), nil
	case bson.A:
		idx, ok := isIndex(k)
		if !ok {
			return nil, ErrInvalid
		}
		if idx < len(x) {
			nv, err := SetPath(x[idx], comps[1:], v)
			if err != nil {
				return nil, err
			}
			x[idx] = nv
			return x, nil
		}
		for len(x) < idx {
			x = append(x, nil)
		}
		return append(x, build(comps[1:], v)), nil
	}
	return nil, ErrInvalid
}

// UnsetPath removes; returns new container and whether something was removed.
func UnsetPath(cur interface{}, comps []string) (interface{}, bool) {
	k := comps[0]
	switch x := cur.(type) {
	case bson.D:
		for i := range x {
			if x[i].Key == k {
				if len(comps) == 1 {
					return append(x[:i:i], x[i+1:]...), true
				}
				nv, ok := UnsetPath(x[i].Value, comps[1:])
				x[i].Value = nv
				return x, ok
			}
		}
	case bson.A:
		if idx, ok := isIndex(k); ok && idx < len(x) {
			if len(comps) == 1 {
				x[idx] = nil
				return x, true
			}
			nv, ok := UnsetPath(x[idx], comps[1:])
			x[idx] = nv
			return x, ok
		}
	}
	return cur, false
}

var ErrOverflow = ErrInvalid

func fitsInt32(r *big.Rat) bool {
	return r.IsInt() && r.Num().IsInt64() && r.Num().Int64() >= math.MinInt32 && r.Num().Int64() <= math.MaxInt32
}

// Arith implements $inc/$mul type promotion.
func Arith(a, b interface{}, mul bool) (interface{}, error) {
	if Class(a) != 2 || Class(b) != 2 {
		return nil, ErrInvalid
	}
	_, ad := a.(primitive.Decimal128)
	_, bd := b.(primitive.Decimal128)
	if ad || bd {
		return nil, ErrOutside // decimal arithmetic: rounding rules outside the reference
	}
	af, aIsF := a.(float64)
	bf, bIsF := b.(float64)
	if aIsF || bIsF {
		if !aIsF {
			af = toF(a)
		}
		if !bIsF {
			bf = toF(b)
		}
		if mul {
			return af * bf, nil
		}
		return af + bf, nil
	}
	x, y := toI(a), toI(b)
	r := new(big.Int)
	if mul {
		r.Mul(big.NewInt(x), big.NewInt(y))
	} else {
		r.Add(big.NewInt(x), big.NewInt(y))
	}
	_, a32 := a.(int32)
	_, b32 := b.(int32)
	if a32 && b32 && r.IsInt64() && r.Int64() >= math.MinInt32 && r.Int64() <= math.MaxInt32 {
		return int32(r.Int64()), nil
	}
	if !r.IsInt64() {
		return nil, ErrOverflow
	}
	return r.Int64(), nil
}

func toF(v interface{}) float64 {
	switch n := v.(type) {
	case int32:
		return float64(n)
	case int64:
		return float64(n)
	case float64:
		return n
	}
	panic("toF")
}

func toI(v interface{}) int64 {
	switch n := v.(type) {
	case int32:
		return int64(n)
	case int64:
		return n
	}
	panic("toI")
}

func split(p string) []string { return strings.Split(p, ".") }

// ApplyOp applies one operator to one concrete path. doc is mutated (callers clone).
func ApplyOp(doc *bson.D, op, path string, arg interface{}, upsert bool) error {
	comps := split(path)
	for _, c := range comps {
		if c == "" {
			return ErrOutside
		}
	}
	if comps[0] == "_id" {
		return ErrOutside
	}
	set := func(v interface{}) error {
		nv, err := SetPath(*doc, comps, v)
		if err != nil {
			return err
		}
		*doc = nv.(bson.D)
		return nil
	}
	cur := GetPath(*doc, comps)
	switch op {
	case "$set":
		return set(arg)
	case "$setOnInsert":
		if upsert {
			return set(arg)
		}
		return nil
	case "$unset":
		nv, _ := UnsetPath(*doc, comps)
		*doc = nv.(bson.D)
		return nil
	case "$inc", "$mul":
		if Class(arg) != 2 {
			return ErrInvalid
		}
		if _, isDec := arg.(primitive.Decimal128); isDec {
			return ErrOutside // decimal arithmetic / re-encoding is outside the reference
		}
		if cur == Missing {
			if op == "$inc" {
				if f, ok := arg.(float64); ok && f == 0 && math.Signbit(f) {
					return ErrOutside
				}
				return set(arg)
			}
			z, err := Arith(int32(0), arg, true)
			if err != nil {
				return err
			}
			if f, ok := z.(float64); ok && (math.IsNaN(f) || math.Signbit(f)) {
				return ErrOutside
			}
			return set(z)
		}
		r, err := Arith(cur, arg, op == "$mul")
		if err != nil {
			return err
		}
		return set(r)
	case "$min", "$max":
		if cur == Missing {
			return set(arg)
		}
		c := Cmp(cur, arg)
		if (op == "$min" && c > 0) || (op == "$max" && c < 0) {
			return set(arg)
		}
		return nil
	case "$pop":
		n, ok := wholeInt(arg)
		if !ok || (n != 1 && n != -1) {
			return ErrInvalid
		}
		if cur == Missing {
			return nil
		}
		a, ok := cur.(bson.A)
		if !ok {
			return ErrInvalid
		}
		if len(a) == 0 {
			return nil
		}
		if n == 1 {
			return set(append(bson.A{}, a[:len(a)-1]...))
		}
		return set(append(bson.A{}, a[1:]...))
	case "$pullAll":
		targets, ok := arg.(bson.A)
		if !ok {
			return ErrInvalid
		}
		if cur == Missing {
			return nil
		}
		a, ok := cur.(bson.A)
		if !ok {
			return ErrInvalid
		}
		out := bson.A{}
		for _, e := range a {
			hit := false
			for _, tg := range targets {
				if Cmp(e, tg) == 0 {
					hit = true
				}
			}
			if !hit {
				out = append(out, e)
			}
		}
		return set(out)
	case "$pull":
		if cur == Missing {
			return nil
		}
		a, ok := cur.(bson.A)
		if !ok {
			return ErrInvalid
		}
		out := bson.A{}
		for _, e := range a {
			m, err := pullMatch(e, arg)
			if err != nil {
				return err
			}
			if !m {
				out = append(out, e)
			}
		}
		return set(out)
	case "$addToSet":
		vals := bson.A{arg}
		if d, ok := arg.(bson.D); ok && len(d) > 0 && d[0].Key == "$each" {
			if len(d) != 1 {
				return ErrInvalid
			}
			ea, ok := d[0].Value.(bson.A)
			if !ok {
				return ErrInvalid
			}
			vals = ea
		} else if ok && hasDollar(d) {
			return ErrOutside
		}
		var a bson.A
		if cur == Missing {
			if len(vals) == 0 {
				return ErrOutside // empty $each on a missing field: version dependent
			}
			a = bson.A{}
		} else if ca, ok := cur.(bson.A); ok {
			a = append(bson.A{}, ca...)
		} else {
			return ErrInvalid
		}
		for _, v := range vals {
			dup := false
			for _, e := range a {
				if Cmp(e, v) == 0 {
					dup = true
				}
			}
			if !dup {
				a = append(a, v)
			}
		}
		return set(a)
	case "$push":
		vals := bson.A{arg}
		var pos, slice *int64
		var sortSpec interface{}
		if d, ok := arg.(bson.D); ok && hasKey(d, "$each") {
			for _, e := range d {
				switch e.Key {
				case "$each":
					ea, ok := e.Value.(bson.A)
					if !ok {
						return ErrInvalid
					}
					vals = ea
				case "$position":
					n, ok := wholeInt(e.Value)
					if !ok {
						return ErrInvalid
					}
					pos = &n
				case "$slice":
					n, ok := wholeInt(e.Value)
					if !ok {
						return ErrInvalid
					}
					slice = &n
				case "$sort":
					sortSpec = e.Value
				default:
					return ErrInvalid
				}
			}
		} else if ok && hasDollar(d) {
			return ErrOutside
		}
		var a bson.A
		if cur == Missing {
			if len(vals) == 0 {
				return ErrOutside // empty $each on a missing field: version dependent
			}
			a = bson.A{}
		} else if ca, ok := cur.(bson.A); ok {
			a = append(bson.A{}, ca...)
		} else {
			return ErrInvalid
		}
		at := len(a)
		if pos != nil {
			if *pos < 0 {
				at = len(a) + int(*pos)
				if at < 0 {
					at = 0
				}
			} else if int(*pos) < len(a) {
				at = int(*pos)
			}
		}
		na := append(bson.A{}, a[:at]...)
		na = append(na, vals...)
		na = append(na, a[at:]...)
		if sortSpec != nil {
			switch s := sortSpec.(type) {
			case bson.D:
				for _, e := range na {
					if _, ok := e.(bson.D); !ok {
						return ErrOutside
					}
				}
				if len(s) == 0 {
					return ErrInvalid
				}
				type col struct {
					p   []string
					rev bool
				}
				var cols []col
				for _, e := range s {
					n, ok := wholeInt(e.Value)
					if !ok || (n != 1 && n != -1) {
						return ErrInvalid
					}
					cols = append(cols, col{split(e.Key), n == -1})
				}
				sort.SliceStable(na, func(i, j int) bool {
					for _, c := range cols {
						r := Cmp(GetPath(na[i], c.p), GetPath(na[j], c.p))
						if c.rev {
							r = -r
						}
						if r != 0 {
							return r < 0
						}
					}
					return false
				})
			default:
				n, ok := wholeInt(s)
				if !ok || (n != 1 && n != -1) {
					return ErrInvalid
				}
				sort.SliceStable(na, func(i, j int) bool {
					r := Cmp(na[i], na[j])
					if n == -1 {
						r = -r
					}
					return r < 0
				})
			}
		}
		if slice != nil {
			s := *slice
			switch {
			case s == 0:
				na = bson.A{}
			case s > 0 && int(s) < len(na):
				na = na[:s]
			case s < 0 && int(-s) < len(na):
				na = na[len(na)-int(-s):]
			}
		}
		return set(na)
	case "$bit":
		d, ok := arg.(bson.D)
		if !ok || len(d) != 1 {
			return ErrInvalid
		}
		var operand int64
		op64 := false
		switch n := d[0].Value.(type) {
		case int32:
			operand = int64(n)
		case int64:
			operand, op64 = n, true
		default:
			return ErrInvalid
		}
		var c int64
		c64 := false
		switch n := cur.(type) {
		case int32:
			c = int64(n)
		case int64:
			c, c64 = n, true
		case missingT:
		default:
			return ErrInvalid
		}
		var r int64
		switch d[0].Key {
		case "and":
			r = c & operand
		case "or":
			r = c | operand
		case "xor":
			r = c ^ operand
		default:
			return ErrInvalid
		}
		if cur != Missing && r == c && op64 && !c64 {
			return ErrOutside // value unchanged, only the width would change
		}
		if op64 || c64 {
			return set(r)
		}
		return set(int32(r))
	case "$rename":
		to, ok := arg.(string)
		if !ok {
			return ErrInvalid
		}
		return renameOp(doc, path, to)
	}
	return ErrOutside
}

func renameOp(doc *bson.D, from, to string) error {
	if from == to || strings.HasPrefix(from, to+".") || strings.HasPrefix(to, from+".") {
		return ErrInvalid
	}
	for _, c := range append(split(from), split(to)...) {
		if _, ok := isIndex(c); ok {
			return ErrOutside
		}
		if c == "" {
			return ErrOutside
		}
	}
	// arrays along either path are an error in MongoDB; keep documents only
	if throughArray(*doc, split(from)) || throughArray(*doc, split(to)) {
		return ErrOutside
	}
	v := GetPath(*doc, split(from))
	if v == Missing {
		return nil
	}
	nv, _ := UnsetPath(*doc, split(from))
	*doc = nv.(bson.D)
	// rename overwrites the target
	nv2, _ := UnsetPath(*doc, split(to))
	*doc = nv2.(bson.D)
	nv3, err := SetPath(*doc, split(to), v)
	if err != nil {
		return ErrOutside
	}
	*doc = nv3.(bson.D)
	return nil
}

func throughArray(v interface{}, comps []string) bool {
	for _, c := range comps {
		switch x := v.(type) {
		case bson.A:
			return true
		case bson.D:
			nv, ok := get(x, c)
			if !ok {
				return false
			}
			v = nv
		default:
			return false
		}
	}
	_, isA := v.(bson.A)
	_ = isA
	return false
}

func hasKey(d bson.D, k string) bool {
	_, ok := get(d, k)
	return ok
}

func hasDollar(d bson.D) bool {
	for _, e := range d {
		if strings.HasPrefix(e.Key, "$") {
			return true
		}
	}
	return false
}

func pullMatch(el, cond interface{}) (bool, error) {
	if cd, ok := cond.(bson.D); ok {
		allOps := len(cd) > 0
		anyOps := false
		for _, e := range cd {
			if strings.HasPrefix(e.Key, "$") {
				anyOps = true
			} else {
				allOps = false
			}
		}
		if allOps {
			return matchField(bson.D{{Key: "e", Value: el}}, "e", cd)
		}
		if anyOps {
			return false, ErrOutside
		}
		ed, ok := el.(bson.D)
		if !ok {
			return false, nil
		}
		return Match(ed, cd)
	}
	if _, isArr := el.(bson.A); isArr {
		return false, ErrOutside
	}
	return Cmp(el, cond) == 0, nil
}
