// Package ref holds reference semantics written independently from lungo.
package ref

import (
	"bytes"
	"fmt"
	"math"
	"math/big"
	"strings"

	"go.mongodb.org/mongo-driver/bson"
	"go.mongodb.org/mongo-driver/bson/primitive"
)

// Missing marks an absent value.
type missingT struct{}

var Missing = missingT{}

// Class ranks per MongoDB comparison order.
func Class(v interface{}) int {
	switch v.(type) {
	case nil, primitive.Null, missingT:
		return 1
	case int32, int64, float64, primitive.Decimal128:
		return 2
	case string:
		return 3
	case bson.D:
		return 4
	case bson.A:
		return 5
	case primitive.Binary:
		return 6
	case primitive.ObjectID:
		return 7
	case bool:
		return 8
	case primitive.DateTime:
		return 9
	case primitive.Timestamp:
		return 10
	case primitive.Regex:
		return 11
	}
	panic(fmt.Sprintf("ref: unsupported %T", v))
}

// Num is an exact extended rational.
type Num struct {
	Kind int // 0 NaN, 1 -Inf, 2 finite, 3 +Inf
	R    *big.Rat
}

func ToNum(v interface{}) Num {
	switch n := v.(type) {
	case int32:
		return Num{2, new(big.Rat).SetInt64(int64(n))}
	case int64:
		return Num{2, new(big.Rat).SetInt64(n)}
	case float64:
		if math.IsNaN(n) {
			return Num{Kind: 0}
		} else if math.IsInf(n, 1) {
			return Num{Kind: 3}
		} else if math.IsInf(n, -1) {
			return Num{Kind: 1}
		}
		return Num{2, new(big.Rat).SetFloat64(n)}
	case primitive.Decimal128:
		bi, exp, err := n.BigInt()
		if err != nil {
			s := n.String()
			switch {
			case strings.Contains(s, "NaN"):
				return Num{Kind: 0}
			case strings.HasPrefix(s, "-"):
				return Num{Kind: 1}
			default:
				return Num{Kind: 3}
			}
		}
		r := new(big.Rat).SetInt(bi)
		p := new(big.Int).Exp(big.NewInt(10), big.NewInt(int64(abs(exp))), nil)
		if exp >= 0 {
			r.Mul(r, new(big.Rat).SetInt(p))
		} else {
			r.Quo(r, new(big.Rat).SetInt(p))
		}
		return Num{2, r}
	}
	panic("not a number")
}

func abs(i int) int {
	if i < 0 {
		return -i
	}
	return i
}

func CmpNum(a, b Num) int {
	if a.Kind != b.Kind {
		if a.Kind < b.Kind {
			return -1
		}
		return 1
	}
	if a.Kind != 2 {
		return 0
	}
	return a.R.Cmp(b.R)
}

func sign(i int) int {
	if i < 0 {
		return -1
	} else if i > 0 {
		return 1
	}
	return 0
}

// Cmp is the reference comparison.
func Cmp(a, b interface{}) int {
	ca, cb := Class(a), Class(b)
	if ca != cb {
		return sign(ca - cb)
	}
	switch ca {
	case 1:
		return 0
	case 2:
		return CmpNum(ToNum(a), ToNum(b))
	case 3:
		return strings.Compare(a.(string), b.(string))
	case 4:
		x, y := a.(bson.D), b.(bson.D)
		for i := 0; i < len(x) && i < len(y); i++ {
			if c := strings.Compare(x[i].Key, y[i].Key); c != 0 {
				return c
			}
			if c := Cmp(x[i].Value, y[i].Value); c != 0 {
				return c
			}
		}
		return sign(len(x) - len(y))
	case 5:
		x, y := a.(bson.A), b.(bson.A)
		for i := 0; i < len(x) && i < len(y); i++ {
			if c := Cmp(x[i], y[i]); c != 0 {
				return c
			}
		}
		return sign(len(x) - len(y))
	case 6:
		x, y := a.(primitive.Binary), b.(primitive.Binary)
		if len(x.Data) != len(y.Data) {
			return sign(len(x.Data) - len(y.Data))
		}
		if x.Subtype != y.Subtype {
			return sign(int(x.Subtype) - int(y.Subtype))
		}
		return bytes.Compare(x.Data, y.Data)
	case 7:
		x, y := a.(primitive.ObjectID), b.(primitive.ObjectID)
		return bytes.Compare(x[:], y[:])
	case 8:
		x, y := a.(bool), b.(bool)
		if x == y {
			return 0
		} else if !x {
			return -1
		}
		return 1
	case 9:
		x, y := a.(primitive.DateTime), b.(primitive.DateTime)
		if x < y {
			return -1
		} else if x > y {
			return 1
		}
		return 0
	case 10:
		x, y := a.(primitive.Timestamp), b.(primitive.Timestamp)
		if x.T != y.T {
			if x.T < y.T {
				return -1
			}
			return 1
		}
		if x.I != y.I {
			if x.I < y.I {
				return -1
			}
			return 1
		}
		return 0
	case 11:
		x, y := a.(primitive.Regex), b.(primitive.Regex)
		if c := strings.Compare(x.Pattern, y.Pattern); c != 0 {
			return c
		}
		return strings.Compare(x.Options, y.Options)
	}
	panic("unreachable")
}
