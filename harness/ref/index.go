package ref

import (
	"strings"

	"go.mongodb.org/mongo-driver/bson"
)

// KeyValues returns the index key values of doc for one key path following
// MongoDB's multikey rules: a missing field indexes as null, an array indexes
// each element, an empty array indexes as itself. ok=false when the document
// is outside the modelled domain for this path (a fan-out in which only some
// branches miss the field, or nested arrays).
func KeyValues(doc bson.D, path string) (vals []interface{}, ok bool) {
	if crossesNestedArray(doc, strings.Split(path, ".")) {
		// an array that holds arrays along the path: MongoDB does not descend
		// into the inner arrays, lungo does; outside the modelled domain
		return nil, false
	}
	bs := Walk(doc, strings.Split(path, "."), false)
	missing, present := 0, 0
	for _, b := range bs {
		if b.V == Missing {
			if b.FanOut {
				// an array along the path yields nothing (scalar elements or
				// an empty array): MongoDB indexes null, lungo a marker of its
				// own; outside the modelled domain
				return nil, false
			}
			missing++
			continue
		}
		present++
		if a, isA := b.V.(bson.A); isA {
			if len(a) == 0 {
				vals = append(vals, a)
				continue
			}
			for _, el := range a {
				if _, nested := el.(bson.A); nested {
					return nil, false
				}
				vals = append(vals, el)
			}
			continue
		}
		vals = append(vals, b.V)
	}
	if present == 0 {
		return []interface{}{nil}, true
	}
	if missing > 0 {
		return nil, false
	}
	return vals, true
}

// IndexKeys returns the key tuples (Cartesian product over the key paths).
func IndexKeys(doc bson.D, paths []string) (tuples [][]interface{}, ok bool) {
	tuples = [][]interface{}{{}}
	arrays := 0
	for _, p := range paths {
		vs, ok := KeyValues(doc, p)
		if !ok {
			return nil, false
		}
		if len(vs) > 1 {
			arrays++
		}
		var next [][]interface{}
		for _, t := range tuples {
			for _, v := range vs {
				nt := append(append([]interface{}{}, t...), v)
				next = append(next, nt)
			}
		}
		tuples = next
	}
	if arrays > 1 {
		return nil, false // parallel arrays: MongoDB rejects them
	}
	return tuples, true
}

// TupleEqual compares key tuples with BSON equality.
func TupleEqual(a, b []interface{}) bool {
	if len(a) != len(b) {
		return false
	}
	for i := range a {
		if Cmp(normNull(a[i]), normNull(b[i])) != 0 {
			return false
		}
	}
	return true
}

func normNull(v interface{}) interface{} {
	if v == Missing {
		return nil
	}
	return v
}
