package ref

import (
	"errors"
	"fmt"
	"math"
	"strconv"
	"strings"

	"go.mongodb.org/mongo-driver/bson"
	"go.mongodb.org/mongo-driver/bson/primitive"
)

// ErrInvalid marks a filter the reference considers malformed.
var ErrInvalid = errors.New("invalid")

// ErrOutside marks a (doc, filter) pair outside the domain the reference defines.
var ErrOutside = errors.New("outside domain")

func get(d bson.D, k string) (interface{}, bool) {
	for _, e := range d {
		if e.Key == k {
			return e.Value, true
		}
	}
	return nil, false
}

func isIndex(s string) (int, bool) {
	if s == "" || s[0] < '0' || s[0] > '9' {
		return 0, false
	}
	i, err := strconv.Atoi(s)
	return i, err == nil
}

// Branch is one terminal of a path walk.
type Branch struct {
	V      interface{} // Missing if absent
	FanOut bool        // reached through implicit array traversal
}

// Walk resolves comps on v following MongoDB path semantics (implicit traversal of arrays of
// documents at non-terminal positions, positional access by numeric component).
func Walk(v interface{}, comps []string, fan bool) []Branch {
	if len(comps) == 0 {
		return []Branch{{V: v, FanOut: fan}}
	}
	k := comps[0]
	switch x := v.(type) {
	case bson.D:
		if c, ok := get(x, k); ok {
			return Walk(c, comps[1:], fan)
		}
		return []Branch{{V: Missing, FanOut: fan}}
	case bson.A:
		var res []Branch
		if idx, ok := isIndex(k); ok && idx < len(x) {
			res = append(res, Walk(x[idx], comps[1:], fan)...)
		}
		for _, e := range x {
			if ed, ok := e.(bson.D); ok {
				res = append(res, Walk(ed, comps, true)...)
			}
		}
		if len(res) == 0 {
			return []Branch{{V: Missing, FanOut: true}}
		}
		return res
	}
	return []Branch{{V: Missing, FanOut: fan}}
}

// crossesNestedArray reports whether resolving comps on v passes through an
// array (at a non-terminal position) that holds an array. The agreement domain
// of the reference excludes such paths ("arrays hold scalars or documents but
// not arrays"): MongoDB descends into a nested array only at a matching
// positional offset, other engines descend into every element.
func crossesNestedArray(v interface{}, comps []string) bool {
	if len(comps) == 0 {
		return false
	}
	switch x := v.(type) {
	case bson.D:
		if c, ok := get(x, comps[0]); ok {
			return crossesNestedArray(c, comps[1:])
		}
	case bson.A:
		for _, e := range x {
			if _, ok := e.(bson.A); ok {
				return true
			}
		}
		if idx, ok := isIndex(comps[0]); ok && idx < len(x) {
			if crossesNestedArray(x[idx], comps[1:]) {
				return true
			}
		}
		for _, e := range x {
			if ed, ok := e.(bson.D); ok && crossesNestedArray(ed, comps) {
				return true
			}
		}
	}
	return false
}

// fanDepth is the largest number of arrays that resolving comps on v crosses
// at non-terminal positions (by implicit traversal or by index) on one branch.
func fanDepth(v interface{}, comps []string) int {
	if len(comps) == 0 {
		return 0
	}
	switch x := v.(type) {
	case bson.D:
		if c, ok := get(x, comps[0]); ok {
			return fanDepth(c, comps[1:])
		}
	case bson.A:
		best := 0
		if idx, ok := isIndex(comps[0]); ok && idx < len(x) {
			if d := fanDepth(x[idx], comps[1:]); d > best {
				best = d
			}
		}
		for _, e := range x {
			if ed, ok := e.(bson.D); ok {
				if d := fanDepth(ed, comps); d > best {
					best = d
				}
			}
		}
		return 1 + best
	}
	return 0
}

// cands expands terminal arrays: element values plus the array itself.
func cands(bs []Branch) []interface{} {
	var out []interface{}
	for _, b := range bs {
		out = append(out, b.V)
		if a, ok := b.V.(bson.A); ok {
			for _, e := range a {
				out = append(out, e)
			}
		}
	}
	return out
}

func isNaN(v interface{}) bool {
	if Class(v) != 2 {
		return false
	}
	return ToNum(v).Kind == 0
}

func cmpOp(op string, field, operand interface{}) bool {
	cf, co := Class(field), Class(operand)
	if cf != co {
		return false
	}
	if cf == 2 && (isNaN(field) || isNaN(operand)) {
		both := isNaN(field) && isNaN(operand)
		switch op {
		case "$eq", "$gte", "$lte":
			return both
		}
		return false
	}
	c := Cmp(field, operand)
	switch op {
	case "$eq":
		return c == 0
	case "$gt":
		return c > 0
	case "$gte":
		return c >= 0
	case "$lt":
		return c < 0
	case "$lte":
		return c <= 0
	}
	panic(op)
}

func hasFan(bs []Branch) bool {
	for _, b := range bs {
		if b.FanOut {
			return true
		}
	}
	return false
}

// Match evaluates filter on doc. Returns ErrInvalid for malformed filters.
func Match(doc bson.D, filter bson.D) (bool, error) {
	for _, e := range filter {
		ok, err := matchTop(doc, e)
		if err != nil {
			return false, err
		}
		if !ok {
			return false, nil
		}
	}
	return true, nil
}

func matchTop(doc bson.D, e bson.E) (bool, error) {
	if strings.HasPrefix(e.Key, "$") {
		switch e.Key {
		case "$and", "$or", "$nor":
			arr, ok := e.Value.(bson.A)
			if !ok || len(arr) == 0 {
				return false, ErrInvalid
			}
			// validate all first (MongoDB parses the entire filter before evaluating)
			var subs []bson.D
			for _, it := range arr {
				sd, ok := it.(bson.D)
				if !ok {
					return false, ErrInvalid
				}
				subs = append(subs, sd)
			}
			any, all := false, true
			for _, sd := range subs {
				m, err := Match(doc, sd)
				if err != nil {
					return false, err
				}
				any = any || m
				all = all && m
			}
			switch e.Key {
			case "$and":
				return all, nil
			case "$or":
				return any, nil
			default:
				return !any, nil
			}
		case "$jsonSchema":
			sd, ok := e.Value.(bson.D)
			if !ok {
				return false, ErrInvalid
			}
			return SchemaValid(sd, doc)
		}
		return false, ErrInvalid
	}
	return matchField(doc, e.Key, e.Value)
}

func isOpDoc(v interface{}) (bson.D, bool) {
	d, ok := v.(bson.D)
	if !ok || len(d) == 0 {
		return nil, false
	}
	if !strings.HasPrefix(d[0].Key, "$") {
		return nil, false
	}
	return d, true
}

func matchField(root interface{}, path string, cond interface{}) (bool, error) {
	if ops, ok := isOpDoc(cond); ok {
		for _, o := range ops {
			if !strings.HasPrefix(o.Key, "$") {
				return false, ErrInvalid
			}
		}
		res := true
		for _, o := range ops {
			m, err := matchOp(root, path, o.Key, o.Value)
			if err != nil {
				return false, err
			}
			res = res && m
		}
		return res, nil
	}
	return matchOp(root, path, "$eq", cond)
}

func matchOp(root interface{}, path, op string, operand interface{}) (bool, error) {
	if crossesNestedArray(root, strings.Split(path, ".")) {
		return false, ErrOutside
	}
	bs := Walk(root, strings.Split(path, "."), false)
	fan := hasFan(bs)
	if fan {
		// a path that fans out over an array of sub-documents is in the
		// agreement domain for comparisons with scalars only; for every other
		// operator the branches must at least end in scalars (a leaf array
		// behind a fan-out is flattened by lungo, kept by MongoDB)
		switch op {
		case "$eq", "$ne", "$gt", "$gte", "$lt", "$lte", "$in", "$nin", "$not":
		case "$size":
			// one level of fan-out is in the domain (every sub-document's
			// value is looked at on its own); below a second level lungo
			// hands the operator the collected inner values as one array
			if fanDepth(root, strings.Split(path, ".")) > 1 {
				return false, ErrOutside
			}
		default:
			for _, b := range bs {
				if _, isA := b.V.(bson.A); isA {
					return false, ErrOutside
				}
			}
		}
	}
	switch op {
	case "$eq", "$gt", "$gte", "$lt", "$lte":
		if fan && (Class(operand) == 1 || Class(operand) == 4 || Class(operand) == 5) {
			return false, ErrOutside
		}
		for _, c := range cands(bs) {
			if cmpOp(op, c, operand) {
				return true, nil
			}
		}
		return false, nil
	case "$ne":
		m, err := matchOp(root, path, "$eq", operand)
		return !m, err
	case "$in", "$nin":
		arr, ok := operand.(bson.A)
		if !ok {
			return false, ErrInvalid
		}
		res := false
		for _, it := range arr {
			if d, isD := it.(bson.D); isD && len(d) > 0 && strings.HasPrefix(d[0].Key, "$") {
				return false, ErrInvalid
			}
			if _, isR := it.(primitive.Regex); isR {
				return false, ErrOutside
			}
			m, err := matchOp(root, path, "$eq", it)
			if err != nil {
				return false, err
			}
			res = res || m
		}
		if op == "$nin" {
			return !res, nil
		}
		return res, nil
	case "$not":
		if _, isR := operand.(primitive.Regex); isR {
			return false, ErrOutside
		}
		d, ok := operand.(bson.D)
		if !ok || len(d) == 0 {
			return false, ErrInvalid
		}
		for _, o := range d {
			if !strings.HasPrefix(o.Key, "$") {
				return false, ErrInvalid
			}
		}
		all := true
		for _, o := range d {
			m, err := matchOp(root, path, o.Key, o.Value)
			if err != nil {
				return false, err
			}
			all = all && m
		}
		return !all, nil
	case "$exists":
		want := truthy(operand)
		found := false
		for _, b := range bs {
			if b.V != Missing {
				found = true
			}
		}
		return want == found, nil
	case "$type":
		var specs []interface{}
		if a, ok := operand.(bson.A); ok {
			if len(a) == 0 {
				return false, ErrInvalid
			}
			specs = a
		} else {
			specs = []interface{}{operand}
		}
		var preds []func(interface{}) bool
		for _, s := range specs {
			p, err := typePred(s)
			if err != nil {
				return false, err
			}
			preds = append(preds, p)
		}
		for _, c := range cands(bs) {
			if c == Missing && !EmulateTypeNull {
				continue
			}
			for _, p := range preds {
				if p(c) {
					return true, nil
				}
			}
		}
		return false, nil
	case "$size":
		n, ok := wholeInt(operand)
		if !ok || n < 0 {
			return false, ErrInvalid
		}
		for _, b := range bs {
			if a, ok := b.V.(bson.A); ok && int64(len(a)) == n {
				return true, nil
			}
		}
		return false, nil
	case "$all":
		arr, ok := operand.(bson.A)
		if !ok {
			return false, ErrInvalid
		}
		if fan {
			return false, ErrOutside
		}
		if len(arr) == 0 {
			return false, nil
		}
		for _, it := range arr {
			if d, isD := it.(bson.D); isD && len(d) > 0 && strings.HasPrefix(d[0].Key, "$") {
				return false, ErrOutside
			}
			m, err := matchOp(root, path, "$eq", it)
			if err != nil {
				return false, err
			}
			if !m {
				return false, nil
			}
		}
		return true, nil
	case "$elemMatch":
		q, ok := operand.(bson.D)
		if !ok {
			return false, ErrInvalid
		}
		if fan {
			return false, ErrOutside
		}
		if len(q) == 0 {
			return false, ErrOutside
		}
		opForm := strings.HasPrefix(q[0].Key, "$")
		for _, b := range bs {
			a, ok := b.V.(bson.A)
			if !ok {
				continue
			}
			for _, el := range a {
				var m bool
				var err error
				if opForm {
					m, err = matchField(bson.D{{Key: "e", Value: el}}, "e", q)
					// elements are matched as values, not unwound
					if _, isArr := el.(bson.A); isArr {
						return false, ErrOutside
					}
				} else {
					if _, isArr := el.(bson.A); isArr {
						// an array inside the array: outside the agreement domain
						return false, ErrOutside
					}
					ed, isD := el.(bson.D)
					if !isD {
						continue
					}
					for _, qe := range q {
						if strings.HasPrefix(qe.Key, "$") {
							return false, ErrOutside
						}
					}
					m, err = Match(ed, q)
				}
				if err != nil {
					return false, err
				}
				if m {
					return true, nil
				}
			}
		}
		return false, nil
	case "$mod":
		arr, ok := operand.(bson.A)
		if !ok || len(arr) != 2 {
			return false, ErrInvalid
		}
		dv, ok1 := modOperand(arr[0])
		rm, ok2 := modOperand(arr[1])
		if !ok1 || !ok2 || dv == 0 {
			return false, ErrInvalid
		}
		for _, c := range cands(bs) {
			if _, isDec := c.(primitive.Decimal128); isDec {
				return false, ErrOutside
			}
			if n, ok := truncInt(c); ok && n%dv == rm {
				return true, nil
			}
		}
		return false, nil
	case "$bitsAllSet", "$bitsAllClear", "$bitsAnySet", "$bitsAnyClear":
		pos, err := bitPositions(operand)
		if err != nil {
			return false, err
		}
		for _, c := range cands(bs) {
			if _, isDec := c.(primitive.Decimal128); isDec {
				return false, ErrOutside
			}
			bit, ok := bitReader(c)
			if !ok {
				continue
			}
			set := 0
			for _, p := range pos {
				if bit(p) {
					set++
				}
			}
			var m bool
			switch op {
			case "$bitsAllSet":
				m = set == len(pos)
			case "$bitsAllClear":
				m = set == 0
			case "$bitsAnySet":
				m = set > 0
			case "$bitsAnyClear":
				m = set < len(pos)
			}
			if m {
				return true, nil
			}
		}
		return false, nil
	}
	return false, ErrInvalid
}

func truthy(v interface{}) bool {
	switch n := v.(type) {
	case bool:
		return n
	case nil:
		return false
	case int32:
		return n != 0
	case int64:
		return n != 0
	case float64:
		return n != 0
	case primitive.Decimal128:
		x := ToNum(n)
		return !(x.Kind == 2 && x.R.Sign() == 0)
	}
	return true
}

func wholeInt(v interface{}) (int64, bool) {
	switch n := v.(type) {
	case int32:
		return int64(n), true
	case int64:
		return n, true
	case float64:
		if n != math.Trunc(n) || math.IsInf(n, 0) || math.IsNaN(n) || math.Abs(n) >= 1<<62 {
			return 0, false
		}
		return int64(n), true
	}
	return 0, false
}

func modOperand(v interface{}) (int64, bool) {
	switch n := v.(type) {
	case int32:
		return int64(n), true
	case int64:
		return n, true
	case float64:
		if math.IsNaN(n) || math.IsInf(n, 0) || n < -math.Pow(2, 63) || n >= math.Pow(2, 63) {
			return 0, false
		}
		return int64(math.Trunc(n)), true
	}
	return 0, false
}

func truncInt(v interface{}) (int64, bool) {
	switch v.(type) {
	case int32, int64, float64:
		return modOperand(v)
	}
	return 0, false
}

var typeAlias = map[string]func(interface{}) bool{
	"double":    func(v interface{}) bool { _, ok := v.(float64); return ok },
	"string":    func(v interface{}) bool { _, ok := v.(string); return ok },
	"object":    func(v interface{}) bool { _, ok := v.(bson.D); return ok },
	"array":     func(v interface{}) bool { _, ok := v.(bson.A); return ok },
	"binData":   func(v interface{}) bool { _, ok := v.(primitive.Binary); return ok },
	"objectId":  func(v interface{}) bool { _, ok := v.(primitive.ObjectID); return ok },
	"bool":      func(v interface{}) bool { _, ok := v.(bool); return ok },
	"date":      func(v interface{}) bool { _, ok := v.(primitive.DateTime); return ok },
	"null":      func(v interface{}) bool { return v == nil || v == Missing },
	"regex":     func(v interface{}) bool { _, ok := v.(primitive.Regex); return ok },
	"int":       func(v interface{}) bool { _, ok := v.(int32); return ok },
	"timestamp": func(v interface{}) bool { _, ok := v.(primitive.Timestamp); return ok },
	"long":      func(v interface{}) bool { _, ok := v.(int64); return ok },
	"decimal":   func(v interface{}) bool { _, ok := v.(primitive.Decimal128); return ok },
	"number":    func(v interface{}) bool { return Class(v) == 2 },
}

var typeNum = map[int64]string{1: "double", 2: "string", 3: "object", 4: "array", 5: "binData", 7: "objectId", 8: "bool", 9: "date", 10: "null", 11: "regex", 16: "int", 17: "timestamp", 18: "long", 19: "decimal"}

var EmulateTypeNull = false
var EmulateNoSignExt = false

var never = func(interface{}) bool { return false }

func typePred(s interface{}) (func(interface{}) bool, error) {
	switch x := s.(type) {
	case string:
		if p, ok := typeAlias[x]; ok {
			return p, nil
		}
		switch x {
		case "undefined", "dbPointer", "javascript", "symbol", "javascriptWithScope", "minKey", "maxKey":
			return never, nil
		}
		return nil, ErrInvalid
	case int32, int64, float64:
		n, ok := wholeInt(x)
		if !ok {
			return nil, ErrInvalid
		}
		if a, ok := typeNum[n]; ok {
			return typeAlias[a], nil
		}
		switch n {
		case 6, 12, 13, 14, 15, 127:
			return never, nil
		case -1:
			return never, nil
		}
		return nil, ErrInvalid
	}
	return nil, ErrInvalid
}

func bitPositions(v interface{}) ([]uint, error) {
	switch m := v.(type) {
	case int32, int64, float64:
		n, ok := wholeInt(m)
		if !ok || n < 0 {
			return nil, ErrInvalid
		}
		var out []uint
		for i := uint(0); i < 63; i++ {
			if n&(1<<i) != 0 {
				out = append(out, i)
			}
		}
		return out, nil
	case bson.A:
		var out []uint
		for _, it := range m {
			n, ok := wholeInt(it)
			if !ok || n < 0 {
				return nil, ErrInvalid
			}
			out = append(out, uint(n))
		}
		return out, nil
	case primitive.Binary:
		var out []uint
		for i, b := range m.Data {
			for j := uint(0); j < 8; j++ {
				if b&(1<<j) != 0 {
					out = append(out, uint(i)*8+j)
				}
			}
		}
		return out, nil
	}
	return nil, ErrInvalid
}

func bitReader(v interface{}) (func(uint) bool, bool) {
	switch f := v.(type) {
	case int32, int64:
		n, _ := wholeInt(f)
		return func(p uint) bool {
			if p >= 64 {
				return n < 0 && !EmulateNoSignExt // sign extension
			}
			return uint64(n)&(1<<p) != 0
		}, true
	case float64:
		if f != math.Trunc(f) || math.IsNaN(f) || math.IsInf(f, 0) || f < -math.Pow(2, 63) || f >= math.Pow(2, 63) {
			return nil, false
		}
		n := int64(f)
		return func(p uint) bool {
			if p >= 64 {
				return n < 0 && !EmulateNoSignExt
			}
			return uint64(n)&(1<<p) != 0
		}, true
	case primitive.Binary:
		return func(p uint) bool {
			i := p / 8
			if int(i) >= len(f.Data) {
				return false
			}
			return f.Data[i]&(1<<(p%8)) != 0
		}, true
	}
	return nil, false
}

var _ = fmt.Sprint
