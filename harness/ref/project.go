package ref

import (
	"strings"

	"go.mongodb.org/mongo-driver/bson"
)

// Project is the reference projection (MongoDB semantics) on the domain of
// DESIGN.md 8.3: paths descend embedded documents only. It returns ErrOutside
// for inputs outside that domain and ErrInvalid where an error is required.
// The field order of the result is not specified (callers compare up to order).
func Project(doc bson.D, proj bson.D) (bson.D, error) {
	type sliceSpec struct {
		path        string
		n           int64
		skip, limit int64
		pair        bool
	}
	var include, exclude []string
	var slices []sliceSpec
	type emSpec struct {
		path string
		q    bson.D
	}
	var elems []emSpec
	hideID := false
	idIncluded := false
	var all []string
	for _, e := range proj {
		if e.Key == "" || strings.HasPrefix(e.Key, "$") {
			return nil, ErrOutside
		}
		for _, c := range strings.Split(e.Key, ".") {
			if c == "" {
				return nil, ErrOutside
			}
			if _, ok := isIndex(c); ok {
				return nil, ErrOutside
			}
		}
		all = append(all, e.Key)
		switch v := e.Value.(type) {
		case bool:
			if e.Key == "_id" {
				hideID = !v
				idIncluded = v
			} else if v {
				include = append(include, e.Key)
			} else {
				exclude = append(exclude, e.Key)
			}
		case int32, int64, float64:
			n, ok := wholeInt(v)
			if !ok || (n != 0 && n != 1) {
				return nil, ErrOutside // other numbers: truthiness rules not modelled
			}
			if e.Key == "_id" {
				hideID = n == 0
				idIncluded = n == 1
			} else if n == 1 {
				include = append(include, e.Key)
			} else {
				exclude = append(exclude, e.Key)
			}
		case bson.D:
			if len(v) != 1 {
				return nil, ErrOutside
			}
			switch v[0].Key {
			case "$slice":
				switch a := v[0].Value.(type) {
				case int32, int64, float64:
					n, ok := wholeInt(a)
					if !ok {
						return nil, ErrOutside
					}
					slices = append(slices, sliceSpec{path: e.Key, n: n})
				case bson.A:
					if len(a) != 2 {
						return nil, ErrInvalid
					}
					s, ok1 := wholeInt(a[0])
					l, ok2 := wholeInt(a[1])
					if !ok1 || !ok2 {
						return nil, ErrOutside
					}
					if l <= 0 {
						return nil, ErrOutside // MongoDB requires a positive limit
					}
					slices = append(slices, sliceSpec{path: e.Key, skip: s, limit: l, pair: true})
				default:
					return nil, ErrInvalid
				}
			case "$elemMatch":
				q, ok := v[0].Value.(bson.D)
				if !ok {
					return nil, ErrInvalid
				}
				if strings.Contains(e.Key, ".") || len(q) == 0 {
					return nil, ErrOutside
				}
				elems = append(elems, emSpec{e.Key, q})
			default:
				return nil, ErrOutside
			}
		default:
			return nil, ErrOutside
		}
	}
	// overlapping paths are a path collision in MongoDB >= 4.4 and version
	// dependent before: outside
	for i := range all {
		for j := range all {
			if i != j && (all[i] == all[j] || strings.HasPrefix(all[i], all[j]+".")) {
				return nil, ErrOutside
			}
		}
	}
	if (len(include) > 0 || idIncluded) && len(exclude) > 0 {
		return nil, ErrInvalid
	}
	if len(elems) > 0 && len(exclude) > 0 {
		return nil, ErrOutside
	}
	// every path must descend documents only
	for _, p := range all {
		if throughArray(doc, strings.Split(p, ".")) {
			return nil, ErrOutside
		}
	}
	inclusion := len(include) > 0 || len(elems) > 0 || idIncluded
	var res bson.D
	if inclusion {
		res = bson.D{}
		if id, ok := get(doc, "_id"); ok {
			res = append(res, bson.E{Key: "_id", Value: CloneV(id)})
		}
		for _, p := range include {
			v := GetPath(doc, strings.Split(p, "."))
			if v == Missing {
				continue
			}
			nv, err := SetPath(res, strings.Split(p, "."), CloneV(v))
			if err != nil {
				return nil, ErrOutside
			}
			res = nv.(bson.D)
		}
	} else {
		res = CloneV(doc).(bson.D)
		for _, p := range exclude {
			nv, _ := UnsetPath(res, strings.Split(p, "."))
			res = nv.(bson.D)
		}
	}
	for _, s := range slices {
		v := GetPath(doc, strings.Split(s.path, "."))
		arr, ok := v.(bson.A)
		if !ok {
			if inclusion {
				return nil, ErrOutside
			}
			continue
		}
		n := int64(len(arr))
		var out bson.A
		if s.pair {
			start := s.skip
			if start < 0 {
				start = n + start
				if start < 0 {
					start = 0
				}
			} else if start > n {
				start = n
			}
			end := n
			if s.limit < n-start {
				end = start + s.limit
			}
			out = append(bson.A{}, arr[start:end]...)
		} else {
			switch {
			case s.n == 0:
				out = bson.A{}
			case s.n > 0:
				if s.n < n {
					out = append(bson.A{}, arr[:s.n]...)
				} else {
					out = append(bson.A{}, arr...)
				}
			default:
				if s.n > -n {
					out = append(bson.A{}, arr[n+s.n:]...)
				} else {
					out = append(bson.A{}, arr...)
				}
			}
		}
		nv, err := SetPath(res, strings.Split(s.path, "."), CloneV(out))
		if err != nil {
			return nil, ErrOutside
		}
		res = nv.(bson.D)
	}
	for _, em := range elems {
		v, _ := get(doc, em.path)
		arr, ok := v.(bson.A)
		if !ok {
			continue
		}
		for _, el := range arr {
			m, err := Match(bson.D{{Key: "e", Value: bson.A{el}}}, bson.D{{Key: "e", Value: bson.D{{Key: "$elemMatch", Value: em.q}}}})
			if err != nil {
				return nil, err
			}
			if m {
				nv, err := SetPath(res, []string{em.path}, bson.A{CloneV(el)})
				if err != nil {
					return nil, ErrOutside
				}
				res = nv.(bson.D)
				break
			}
		}
	}
	if hideID {
		nv, _ := UnsetPath(res, []string{"_id"})
		res = nv.(bson.D)
	}
	return res, nil
}
