package ref

import (
	"regexp"
	"strings"
	"unicode/utf8"

	"go.mongodb.org/mongo-driver/bson"
	"go.mongodb.org/mongo-driver/bson/primitive"
)

// Reference evaluator for $jsonSchema (JSON Schema draft 4 as MongoDB applies
// it to BSON). Written independently of lungo's bsonkit.Schema: a recursive
// boolean function over the schema document. Keywords apply only to values of
// the matching kind and are ignored otherwise. Anything the generators do not
// produce (unknown keywords, malformed arguments) is ErrOutside.

func jsonTypeOf(v interface{}) string {
	switch v.(type) {
	case bson.D:
		return "object"
	case bson.A:
		return "array"
	case string:
		return "string"
	case int32, int64, float64, primitive.Decimal128:
		return "number"
	case bool:
		return "boolean"
	case nil:
		return "null"
	}
	return ""
}

func bsonTypeOf(v interface{}) string {
	switch v.(type) {
	case float64:
		return "double"
	case string:
		return "string"
	case bson.D:
		return "object"
	case bson.A:
		return "array"
	case primitive.Binary:
		return "binData"
	case primitive.ObjectID:
		return "objectId"
	case bool:
		return "bool"
	case primitive.DateTime:
		return "date"
	case nil:
		return "null"
	case primitive.Regex:
		return "regex"
	case int32:
		return "int"
	case primitive.Timestamp:
		return "timestamp"
	case int64:
		return "long"
	case primitive.Decimal128:
		return "decimal"
	}
	return ""
}

func typeNames(v interface{}) ([]string, bool) {
	switch x := v.(type) {
	case string:
		return []string{x}, true
	case bson.A:
		if len(x) == 0 {
			return nil, false
		}
		var out []string
		for _, e := range x {
			s, ok := e.(string)
			if !ok {
				return nil, false
			}
			out = append(out, s)
		}
		return out, true
	}
	return nil, false
}

func schemaInt(v interface{}) (int64, bool) {
	n, ok := wholeInt(v)
	if !ok || n < 0 {
		return 0, false
	}
	return n, true
}

// sameValue is the equality of enum and uniqueItems: BSON comparison within
// one type class (numbers by value).
func sameValue(a, b interface{}) bool {
	return Class(a) == Class(b) && Cmp(a, b) == 0
}

// SchemaDepsUnconditional switches the evaluator to the behaviour of a known
// finding in lungo (array-form dependencies require the listed properties
// even when the dependent property is absent); it is only used to tell that
// finding apart from any other disagreement.
var SchemaDepsUnconditional = false

// SchemaValid evaluates schema on v.
func SchemaValid(schema bson.D, v interface{}) (bool, error) {
	var exMin, exMax bool
	if b, ok := get(schema, "exclusiveMinimum"); ok {
		x, isB := b.(bool)
		if !isB {
			return false, ErrOutside
		}
		exMin = x
	}
	if b, ok := get(schema, "exclusiveMaximum"); ok {
		x, isB := b.(bool)
		if !isB {
			return false, ErrOutside
		}
		exMax = x
	}
	_, hasType := get(schema, "type")
	_, hasBsonType := get(schema, "bsonType")
	if hasType && hasBsonType {
		return false, ErrOutside
	}
	valid := true
	fail := func() { valid = false }
	sub := func(sv interface{}, val interface{}) error {
		sd, ok := sv.(bson.D)
		if !ok {
			return ErrOutside
		}
		ok2, err := SchemaValid(sd, val)
		if err != nil {
			return err
		}
		if !ok2 {
			fail()
		}
		return nil
	}
	doc, isDoc := v.(bson.D)
	arr, isArr := v.(bson.A)
	str, isStr := v.(string)
	isNum := jsonTypeOf(v) == "number"
	if isNum && isNaN(v) {
		return false, ErrOutside
	}
	for _, kw := range schema {
		switch kw.Key {
		case "type":
			names, ok := typeNames(kw.Value)
			if !ok {
				return false, ErrOutside
			}
			hit := false
			for _, n := range names {
				switch n {
				case "object", "array", "string", "number", "boolean", "null":
				default:
					return false, ErrOutside
				}
				if jsonTypeOf(v) == n {
					hit = true
				}
			}
			if !hit {
				fail()
			}
		case "bsonType":
			names, ok := typeNames(kw.Value)
			if !ok {
				return false, ErrOutside
			}
			hit := false
			for _, n := range names {
				switch n {
				case "double", "string", "object", "array", "binData", "objectId", "bool", "date", "null", "regex", "int", "timestamp", "long", "decimal":
					if bsonTypeOf(v) == n {
						hit = true
					}
				case "number":
					if isNum {
						hit = true
					}
				default:
					return false, ErrOutside
				}
			}
			if !hit {
				fail()
			}
		case "enum":
			list, ok := kw.Value.(bson.A)
			if !ok || len(list) == 0 {
				return false, ErrOutside
			}
			hit := false
			for _, e := range list {
				if sameValue(e, v) {
					hit = true
				}
			}
			if !hit {
				fail()
			}
		case "allOf", "anyOf", "oneOf":
			list, ok := kw.Value.(bson.A)
			if !ok || len(list) == 0 {
				return false, ErrOutside
			}
			n := 0
			for _, e := range list {
				sd, ok := e.(bson.D)
				if !ok {
					return false, ErrOutside
				}
				ok2, err := SchemaValid(sd, v)
				if err != nil {
					return false, err
				}
				if ok2 {
					n++
				}
			}
			switch kw.Key {
			case "allOf":
				if n != len(list) {
					fail()
				}
			case "anyOf":
				if n == 0 {
					fail()
				}
			default:
				if n != 1 {
					fail()
				}
			}
		case "not":
			sd, ok := kw.Value.(bson.D)
			if !ok {
				return false, ErrOutside
			}
			ok2, err := SchemaValid(sd, v)
			if err != nil {
				return false, err
			}
			if ok2 {
				fail()
			}
		case "minimum", "maximum":
			if jsonTypeOf(kw.Value) != "number" || isNaN(kw.Value) {
				return false, ErrOutside
			}
			if !isNum {
				continue
			}
			c := Cmp(v, kw.Value)
			if kw.Key == "minimum" {
				if c < 0 || (exMin && c == 0) {
					fail()
				}
			} else {
				if c > 0 || (exMax && c == 0) {
					fail()
				}
			}
		case "exclusiveMinimum":
			if _, ok := get(schema, "minimum"); !ok {
				return false, ErrOutside
			}
		case "exclusiveMaximum":
			if _, ok := get(schema, "maximum"); !ok {
				return false, ErrOutside
			}
		case "multipleOf":
			d, ok := wholeInt(kw.Value)
			if !ok || d <= 0 {
				return false, ErrOutside
			}
			if !isNum {
				continue
			}
			n, whole := wholeInt(v)
			if !whole {
				// fractional and huge values: only integers are compared
				return false, ErrOutside
			}
			if n%d != 0 {
				fail()
			}
		case "minLength", "maxLength":
			n, ok := schemaInt(kw.Value)
			if !ok {
				return false, ErrOutside
			}
			if !isStr {
				continue
			}
			l := int64(utf8.RuneCountInString(str))
			if (kw.Key == "minLength" && l < n) || (kw.Key == "maxLength" && l > n) {
				fail()
			}
		case "pattern":
			p, ok := kw.Value.(string)
			if !ok {
				return false, ErrOutside
			}
			re, err := regexp.Compile(p)
			if err != nil {
				return false, ErrOutside
			}
			if isStr && !re.MatchString(str) {
				fail()
			}
		case "required":
			list, ok := kw.Value.(bson.A)
			if !ok || len(list) == 0 {
				return false, ErrOutside
			}
			for _, e := range list {
				name, ok := e.(string)
				if !ok {
					return false, ErrOutside
				}
				if isDoc {
					if _, has := get(doc, name); !has {
						fail()
					}
				}
			}
		case "minProperties", "maxProperties":
			n, ok := schemaInt(kw.Value)
			if !ok {
				return false, ErrOutside
			}
			if !isDoc {
				continue
			}
			if (kw.Key == "minProperties" && int64(len(doc)) < n) || (kw.Key == "maxProperties" && int64(len(doc)) > n) {
				fail()
			}
		case "properties":
			props, ok := kw.Value.(bson.D)
			if !ok {
				return false, ErrOutside
			}
			for _, p := range props {
				if _, isS := p.Value.(bson.D); !isS {
					return false, ErrOutside
				}
				if !isDoc {
					continue
				}
				if fv, has := get(doc, p.Key); has {
					if err := sub(p.Value, fv); err != nil {
						return false, err
					}
				}
			}
		case "patternProperties":
			pats, ok := kw.Value.(bson.D)
			if !ok {
				return false, ErrOutside
			}
			for _, p := range pats {
				re, err := regexp.Compile(p.Key)
				if err != nil {
					return false, ErrOutside
				}
				if _, isS := p.Value.(bson.D); !isS {
					return false, ErrOutside
				}
				if !isDoc {
					continue
				}
				for _, f := range doc {
					if re.MatchString(f.Key) {
						if err := sub(p.Value, f.Value); err != nil {
							return false, err
						}
					}
				}
			}
		case "additionalProperties":
			var allow, isBool bool
			var as bson.D
			switch x := kw.Value.(type) {
			case bool:
				allow, isBool = x, true
			case bson.D:
				as = x
			default:
				return false, ErrOutside
			}
			if !isDoc {
				continue
			}
			props, _ := get(schema, "properties")
			pats, _ := get(schema, "patternProperties")
			for _, f := range doc {
				covered := false
				if pd, ok := props.(bson.D); ok {
					if _, has := get(pd, f.Key); has {
						covered = true
					}
				}
				if pd, ok := pats.(bson.D); ok {
					for _, p := range pd {
						re, err := regexp.Compile(p.Key)
						if err != nil {
							return false, ErrOutside
						}
						if re.MatchString(f.Key) {
							covered = true
						}
					}
				}
				if covered {
					continue
				}
				if isBool {
					if !allow {
						fail()
					}
				} else if err := sub(as, f.Value); err != nil {
					return false, err
				}
			}
		case "dependencies":
			deps, ok := kw.Value.(bson.D)
			if !ok {
				return false, ErrOutside
			}
			for _, d := range deps {
				switch x := d.Value.(type) {
				case bson.A:
					if len(x) == 0 {
						return false, ErrOutside
					}
					for _, e := range x {
						name, ok := e.(string)
						if !ok {
							return false, ErrOutside
						}
						if isDoc {
							if _, has := get(doc, d.Key); has || SchemaDepsUnconditional {
								if _, has2 := get(doc, name); !has2 {
									fail()
								}
							}
						}
					}
				case bson.D:
					if isDoc {
						if _, has := get(doc, d.Key); has {
							if err := sub(x, v); err != nil {
								return false, err
							}
						}
					}
				default:
					return false, ErrOutside
				}
			}
		case "items":
			switch x := kw.Value.(type) {
			case bson.D:
				if isArr {
					for _, e := range arr {
						if err := sub(x, e); err != nil {
							return false, err
						}
					}
				}
			case bson.A:
				for i, s := range x {
					if _, isS := s.(bson.D); !isS {
						return false, ErrOutside
					}
					if isArr && i < len(arr) {
						if err := sub(s, arr[i]); err != nil {
							return false, err
						}
					}
				}
			default:
				return false, ErrOutside
			}
		case "additionalItems":
			var allow, isBool bool
			var as bson.D
			switch x := kw.Value.(type) {
			case bool:
				allow, isBool = x, true
			case bson.D:
				as = x
			default:
				return false, ErrOutside
			}
			items, _ := get(schema, "items")
			list, positional := items.(bson.A)
			if !isArr || !positional {
				continue
			}
			for i := len(list); i < len(arr); i++ {
				if isBool {
					if !allow {
						fail()
					}
				} else if err := sub(as, arr[i]); err != nil {
					return false, err
				}
			}
		case "minItems", "maxItems":
			n, ok := schemaInt(kw.Value)
			if !ok {
				return false, ErrOutside
			}
			if !isArr {
				continue
			}
			if (kw.Key == "minItems" && int64(len(arr)) < n) || (kw.Key == "maxItems" && int64(len(arr)) > n) {
				fail()
			}
		case "uniqueItems":
			b, ok := kw.Value.(bool)
			if !ok {
				return false, ErrOutside
			}
			if !b || !isArr {
				continue
			}
			for i := range arr {
				if isNaN(arr[i]) {
					return false, ErrOutside
				}
				for j := i + 1; j < len(arr); j++ {
					if sameValue(arr[i], arr[j]) {
						fail()
					}
				}
			}
		case "title", "description":
			if _, ok := kw.Value.(string); !ok {
				return false, ErrOutside
			}
		default:
			return false, ErrOutside
		}
		if strings.HasPrefix(kw.Key, "$") {
			return false, ErrOutside
		}
	}
	return valid, nil
}
