// Package stats collects what a check actually covered: evaluations, distinct
// non-trivial cases (by hash), class histograms, excluded-known counts, samples
// and the last (= shrunk) failure. One Rec per property per process; the driver
// merges the shard files.
package stats

import (
	"encoding/binary"
	"encoding/json"
	"fmt"
	"hash/fnv"
	"os"
	"path/filepath"
	"sort"
	"sync"

	"go.mongodb.org/mongo-driver/bson"
)

// MaxDistinct caps the per-process distinct set (the reported number is then a
// lower bound).
const MaxDistinct = 300000

// Rec is a per-property recorder.
type Rec struct {
	mu        sync.Mutex
	Prop      string
	Sub       string
	Evals     int64
	NTTotal   int64
	nt        map[uint64]struct{}
	Classes   map[string]int64
	Excluded  map[string]int64
	Samples   []json.RawMessage
	ntSamples int
	Failure   *Failure
	frozen    bool
}

// Failure is the recorded (last = minimal) failing case.
type Failure struct {
	Property string          `json:"property"`
	Sub      string          `json:"sub"`
	Message  string          `json:"message"`
	Case     json.RawMessage `json:"case"`
}

var (
	regMu sync.Mutex
	recs  = map[string]*Rec{}
)

// For returns the recorder for a property / sub-check pair.
func For(prop, sub string) *Rec {
	regMu.Lock()
	defer regMu.Unlock()
	k := prop + "/" + sub
	r, ok := recs[k]
	if !ok {
		r = &Rec{Prop: prop, Sub: sub, nt: map[uint64]struct{}{}, Classes: map[string]int64{}, Excluded: map[string]int64{}}
		recs[k] = r
	}
	return r
}

// ExtJSON renders a BSON-compatible case canonically.
func ExtJSON(c interface{}) json.RawMessage {
	b, err := bson.MarshalExtJSON(c, true, false)
	if err != nil {
		b, _ = json.Marshal(fmt.Sprintf("unserialisable case: %v", err))
	}
	return b
}

// Hash hashes a canonical serialisation.
func Hash(b []byte) uint64 {
	h := fnv.New64a()
	h.Write(b)
	return h.Sum64()
}

// Eval counts one generated case.
func (r *Rec) Eval() {
	r.mu.Lock()
	if !r.frozen {
		r.Evals++
	}
	r.mu.Unlock()
}

// Class increments a class counter.
func (r *Rec) Class(name string) {
	r.mu.Lock()
	if !r.frozen {
		r.Classes[name]++
	}
	r.mu.Unlock()
}

// ClassN adds n to a class counter.
func (r *Rec) ClassN(name string, n int) {
	r.mu.Lock()
	if !r.frozen {
		r.Classes[name] += int64(n)
	}
	r.mu.Unlock()
}

// Exclude counts a case (or discrepancy) excluded because it belongs to a
// listed known finding.
func (r *Rec) Exclude(class string) {
	r.mu.Lock()
	if !r.frozen {
		r.Excluded[class]++
	}
	r.mu.Unlock()
}

// NonTrivial records a non-trivial case by its canonical form. The case
// function is only evaluated when a sample is wanted.
func (r *Rec) NonTrivial(canon []byte) {
	r.mu.Lock()
	defer r.mu.Unlock()
	if r.frozen {
		return
	}
	r.NTTotal++
	if len(r.nt) < MaxDistinct {
		r.nt[Hash(canon)] = struct{}{}
	}
	// keep the first 2 and then a sparse selection of samples
	if r.ntSamples < 2 || (r.NTTotal%997 == 0 && r.ntSamples < 6) {
		if len(canon) < 6000 {
			r.Samples = append(r.Samples, append(json.RawMessage{}, canon...))
			r.ntSamples++
		}
	}
}

// Fail records a failing case; the last recorded one is the shrunk one.
func (r *Rec) Fail(c json.RawMessage, msg string) {
	r.mu.Lock()
	r.frozen = true
	r.Failure = &Failure{Property: r.Prop, Sub: r.Sub, Message: msg, Case: c}
	f := *r.Failure
	r.mu.Unlock()
	// write eagerly: a later wedge or crash must not lose it
	if dir := os.Getenv("VERIF_OUT"); dir != "" {
		b, _ := json.MarshalIndent(f, "", " ")
		_ = os.WriteFile(filepath.Join(dir, fmt.Sprintf("fail-%s-%s.json", r.Prop, r.Sub)), b, 0o644)
	}
}

type fileRec struct {
	Prop     string            `json:"prop"`
	Sub      string            `json:"sub"`
	Evals    int64             `json:"evals"`
	NTTotal  int64             `json:"nt_total"`
	Distinct int               `json:"distinct"`
	Classes  map[string]int64  `json:"classes"`
	Excluded map[string]int64  `json:"excluded"`
	Samples  []json.RawMessage `json:"samples"`
	Failed   bool              `json:"failed"`
}

// Flush writes every recorder to $VERIF_OUT (stats-<prop>-<sub>.json and the
// hash set as .nt binary). Called from TestMain.
func Flush() {
	dir := os.Getenv("VERIF_OUT")
	if dir == "" {
		return
	}
	regMu.Lock()
	defer regMu.Unlock()
	for _, r := range recs {
		r.mu.Lock()
		fr := fileRec{Prop: r.Prop, Sub: r.Sub, Evals: r.Evals, NTTotal: r.NTTotal, Distinct: len(r.nt), Classes: r.Classes, Excluded: r.Excluded, Samples: r.Samples, Failed: r.Failure != nil}
		hs := make([]uint64, 0, len(r.nt))
		for h := range r.nt {
			hs = append(hs, h)
		}
		r.mu.Unlock()
		sort.Slice(hs, func(i, j int) bool { return hs[i] < hs[j] })
		b, _ := json.Marshal(fr)
		base := filepath.Join(dir, fmt.Sprintf("stats-%s-%s", r.Prop, r.Sub))
		_ = os.WriteFile(base+".json", b, 0o644)
		buf := make([]byte, 8*len(hs))
		for i, h := range hs {
			binary.LittleEndian.PutUint64(buf[8*i:], h)
		}
		_ = os.WriteFile(base+".nt", buf, 0o644)
	}
}
