HOOK_COMMITS = []
NOT_APPLICABLE = {}
TEXTS = {
 "C12": {
  "technique": "property-based testing (rapid): generated value triples vs an exact-rational reference order plus order laws",
  "level_text": "Generated search over triples of BSON values with an explicit oracle: agreement of sign(Compare) with an independently written exact reference order (class ranks, numbers as math/big rationals with NaN < -Inf < finite < +Inf) and the order laws (reflexive, antisymmetric, transitive, equal values interchangeable, context invariance). It samples, it does not prove; the generator is biased to the boundaries the property names (2^53, 2^63, non-finite, late differences).",
  "level_note": "Trusts the reference comparator harness/ref/cmp.go (exact rational arithmetic), the mongo-driver BSON types and rapid. Document comparison follows the property's stated order (key, then value).",
 },
}
