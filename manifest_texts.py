HOOK_COMMITS = ["df48cf5"]
NOT_APPLICABLE = {}
TEXTS = {
 "C05": {
  "technique": "fault injection driven by property-based generation (rapid): generated commit histories x exhaustive store-failure plans in-process, and kill points / errno injection at every traced file system call of a child process under strace, plus a trace-shape check for power-loss safety",
  "level_text": "Fault enumeration over generated commit histories: all 3^n store-failure plans per history in-process; for the real file store a child process is killed before each traced file system call (sampled in the quick tier, all in the thorough tier) and has errno failures injected, and the parent checks with lungo's own loader that the file is exactly the old or the new state, that acknowledged commits survive, that errors are reported and recovered from; the traced protocol is checked against the conditions that make it safe under a POSIX-style power-loss model; and after every call of generated driver-call histories on the file store (incl. commits that truncate the change log) the file loaded by a fresh store equals the state the clients see.",
  "level_note": "Needs strace (pre-installed). Power loss is decided on the syscall protocol (temp file, fsync before rename, directory fsync), not on block-device states; kills are at syscall granularity.",
 },
 "C16": {
  "technique": "property-based concurrency and fault-injection testing (rapid): generated actor scripts with injected faults and a schedule-perturbation tape at the engine's lock-release points; state-based wedge oracle (probe write, closed errors, goroutine count)",
  "level_text": "Generated multi-actor scripts over begins, commits, aborts, session operations, cancelled contexts, failing stores, panicking callbacks, streams and shutdown, executed on real goroutines with perturbation at the windows where the engine has dropped its lock; the oracle checks the single-writer invariant, the absence of panics and deadlocks, that the writer slot is free afterwards (probe write), and that shutdown completes with closed errors and no leftover goroutines. The thorough tier adds -race. Sampling of interleavings, not enumeration.",
  "level_note": "Every timeout expiry is reported together with a goroutine dump of lungo frames; bounds are 3-90 s against microsecond latencies.",
 },
 "C09": {
  "technique": "stateful property-based testing (rapid) with the change log as oracle: generated write / watch / TryNext / close histories, retention-truncation histories, and generated concurrent writer/consumer programs with schedule perturbation and bounded, state-decided liveness",
  "level_text": "Generated histories and concurrent programs judged against the change log the harness records itself: exact, ordered, once-only delivery per scope and start position, invalidation, resume tokens, explicit lost-position errors under retention, and wake-up by commit / Close / cancellation / shutdown within a bound. The thorough tier repeats the concurrent part under the race detector. Sampling, not proof.",
  "level_note": "'Without stalls' is checked with a 10 s bound. One open finding (stream positioned before the first event skips discarded events) is excluded by a narrow predicate and replayed on every run.",
 },
 "C04": {
  "technique": "property-based concurrency testing (rapid): generated concurrent programs with a generated schedule-perturbation tape on real goroutines; history oracle with the change log as witness order, sequential replay, real-time order, prefix visibility and conservation; race detector in the thorough tier",
  "level_text": "Generated concurrent programs executed on real goroutines with seed-dependent perturbation at the engine's lock-release points; the recorded history is judged by an oracle that needs no search because the property names the witness (the change log): attribution and contiguity of events, real-time order, sequential replay reproducing every result and the final state, prefix visibility of reads and event-less calls, conservation of counters and marks. The thorough tier adds -race. Sampling of schedules, not enumeration.",
  "level_note": "Nondeterministic schedules affect reproducibility, not soundness: the oracle judges the recorded history; a rare interleaving needing a specific multi-way race may be missed.",
 },
 "C03": {
  "technique": "stateful property-based testing (rapid): generated session/transaction histories with fault injection; visibility and read-your-writes checked against shadow engines, snapshot immutability by byte-level re-dumps",
  "level_text": "Generated histories over two sessions and a plain client with commit / abort / end / failing-store / panicking-callback decisions and snapshot-taking steps; the visible state, the in-transaction results and the post-commit state are compared with shadow engines seeded from the committed state, and every held snapshot is re-dumped after every step; a second sub-check takes the snapshots on a file-backed engine whose aged change log is trimmed by the following commits. Sampling, not proof.",
  "level_note": "One call at a time (the property's quantifier); the shadow engines use lungo's sequential behaviour, which C01 checks against the reference model.",
 },
 "C18": {
  "technique": "property-based testing (rapid): generated content x chunk size x buffer size x write partition x upload lifecycle x read/seek script, model = the byte string and bytes.Reader",
  "level_text": "Generated search with a model oracle: the uploaded byte string and an in-memory reader. Chunk layout, file record, full download, every read/seek/skip step, suspend/resume offsets and the absence of leftovers after abort/delete/cleanup are compared exactly. The 16 MiB buffer arithmetic is reached by shrinking the buffer through a build-tag guarded hook. Sampling, not proof.",
  "level_note": "Relies on the verif hook VerifUploadBuffer for small buffers; invalid whence values are not generated.",
 },
 "C20": {
  "technique": "property-based fuzzing (rapid, plus native coverage-guided go fuzzing through rapid.MakeFuzz in the thorough tier): hostile well-typed inputs against every bsonkit / mongokit / driver entry point with a no-panic, no-hang, engine-still-usable oracle",
  "level_text": "Generated hostile inputs (malformed operator arguments, odd keys and paths, extreme and non-finite numbers, composite ids) fed to the kit-level functions and to the driver API under recover() with a watchdog and a post-call probe write; the thorough tier adds coverage-guided native fuzzing of the same bundle. Millions of calls; sampling, not proof.",
  "level_note": "Documented panics (unsupported options, nil arguments, not implemented) are excluded as the property says; a hang is a bundle exceeding 20 s.",
 },
 "C19": {
  "technique": "property-based testing (rapid): generated collections with TTL and other indexes and documents on both sides of every cutoff; expected deleted set computed from the definition",
  "level_text": "Generated search over collections, TTL index combinations and documents placed on both sides of every cutoff (with safety margins) and of every non-date type, against an oracle that computes the expired set directly from the property's definition and checks survivors byte-for-byte, delete events one-to-one, no-op passes and aborted passes changing nothing, and index coherence. Sampling, not proof.",
  "level_note": "Real-time expiry is exercised through an explicit pass identical to the background loop's; partial TTL indexes are not generated.",
 },
 "C06": {
  "technique": "stateful property-based testing (rapid): generated histories on a file store with close/reopen steps; round-trip oracle on the complete exported state plus behavioural probes",
  "level_text": "Round-trip oracle over generated API histories on the single-file store with the widest value and index-option generators: at every generated close/reopen the complete exported state must be identical, reloading must be idempotent, the reloaded indexes coherent, and identical probe writes / a TTL pass must behave identically on the pre-close and the reloaded state. Sampling, not proof.",
  "level_note": "In-process reopen; the cross-process same-second timestamp reuse noted in DESIGN.md is not covered.",
 },
 "C01": {
  "technique": "stateful model-based property-based testing (rapid): generated driver-API histories checked call by call against an independent sequential reference model",
  "level_text": "Model-based generated search: histories of 10-40 driver calls of every kind, each call's result and the full contents of every collection compared with an independently written sequential model of MongoDB's semantics after every call; calls outside the model's declared domain resynchronise the model and are counted. Thousands (quick) to hundreds of thousands (thorough) of histories; sampling, not proof.",
  "level_note": "Trusts the reference model (harness/ref) inside the core domains of DESIGN.md section 8; generated ObjectIDs, error messages, the field order of projected results and the position of $rename targets are not compared.",
 },
 "C02": {
  "technique": "stateful property-based testing (rapid): generated API histories with failing writes; byte-level state-dump invariant and an item-by-item differential against a second engine",
  "level_text": "Generated call histories biased towards writes that fail at the k-th matched document or k-th batch item, with a reference-free oracle over the complete exported state (documents, indexes and their order, change log): failing single calls change nothing, batches equal the one-by-one application of their succeeding items, commits whose Store call is made to fail and abandoned engine transactions vanish as a whole; a second sub-check runs session-transaction histories and decides the same for calls that fail inside a transaction (shadow-engine differential). Thousands (quick) to hundreds of thousands (thorough) of histories; sampling, not proof.",
  "level_note": "Observes state through the exported catalog; the batch oracle trusts lungo's single-item behaviour and its copy-on-write sharing (checked separately by C03).",
 },
 "C07": {
  "technique": "stateful property-based testing (rapid): generated histories over a collision-rich value pool; uniqueness invariant with an independent key extractor, exactness of rejections",
  "level_text": "Generated histories of writes and index operations on colliding values; after every call an independent key extractor plus reference BSON equality checks that no two documents share a unique key or _id, and that inserts / unique index builds are rejected for uniqueness exactly when a collision exists; rejected updates and replaces are confirmed by a reference model of the pre-state; two further sub-checks run the histories on the file store with reopen steps and decide multi-document key shifts against the reference model's final state. Sampling, not proof.",
  "level_note": "Trusts ref.IndexKeys / ref.Cmp / ref.Match; key paths crossing arrays that yield no value are outside the extractor's domain.",
 },
 "C08": {
  "technique": "stateful property-based testing (rapid): generated histories; change-log replay oracle, event-id monotonicity, update-description faithfulness; direct generated retention cases",
  "level_text": "Generated histories whose change log is replayed step by step onto the previous contents and must reproduce the current contents exactly (order included), with structural checks on every event and a faithfulness check of every update description; the histories include expiry passes, abandoned engine transactions and commits whose Store call fails; retention is decided by a separate generated sub-check against the closed-form rule, and the session histories decide that failing calls inside transactions leave no pending event. Sampling, not proof.",
  "level_note": "Real-time ageing is simulated by rewriting event timestamps; update descriptions are applied with the reference path setter.",
 },
 "C15": {
  "technique": "stateful property-based testing (rapid): generated CRUD + index-management histories; index/collection coherence invariant and rebuild equivalence after every call",
  "level_text": "Generated histories with the index-coherence invariant checked on the exported catalog after every call (membership by identity, order, rebuild equivalence, Has agreement) and a small model for the management clauses (same definition no-op, conflicts rejected, _id index never dropped); a second sub-check runs the histories on the file store with reopen steps (definitions survive, reloaded indexes coherent). Sampling, not proof.",
  "level_note": "Coherence is judged with lungo's own matcher for partial filters; reopening from a file is covered by C06.",
 },
 "C17": {
  "technique": "stateful property-based testing (rapid): generated histories where every argument and every returned value is overwritten in place after the call; byte-level state-dump invariant",
  "level_text": "Generated histories in which the harness plays the most hostile legal caller: after each call it overwrites all argument objects and all returned values in place and requires the complete exported state to stay byte-identical, reads to repeat, and arguments to be unmodified by the call. Sampling, not proof.",
  "level_note": "Covers the driver-level API (where Transform/Decode copy); bsonkit.Clone's documented sharing of binary payloads below that level is not flagged.",
 },
 "C14": {
  "technique": "property-based testing (rapid): differential against an independent reference projection, byte-level non-mutation invariant of the stored document, idempotence of repeated projection, driver-level aliasing checks; the thorough tier adds native coverage-guided go fuzzing of the same generators and oracle through rapid.MakeFuzz",
  "level_text": "Generated search over documents and projection documents with three oracles: byte-identity of the stored document before/after every projection (reference-free, also outside the agreement domain), agreement with an independently written reference projection (inclusion, exclusion, _id, $slice windows, $elemMatch first match, inclusion/exclusion mix rejected) up to field order, and driver-level checks that Find/FindOne/FindOneAnd* project identically, that decoded results can be overwritten without touching the store and that plain projections only return stored values. Sampling, not proof.",
  "level_note": "Trusts ref.Project/ref.Match inside DESIGN.md 8.3; field order of results is not compared.",
 },
 "C13": {
  "technique": "property-based testing (rapid): generated collections x filters x sorts x skip/limit through the driver API, checked against validity predicates (permutation, order, stability, exact window) and a reference matcher / comparator",
  "level_text": "Generated search over collections, filters, sort specifications and windows, executed through lungo's driver API, with validity oracles that admit exactly the outputs the property allows: permutation of the matching set, monotone under the reference sort key, ties in insertion order, windows equal to slices of the full ordering, sorted single-document writes hitting the first element, Distinct ascending and set-equal to the reference value set. Sampling, not proof.",
  "level_note": "Trusts ref.Cmp/ref.Match/ref.Walk; empty-array and through-array sort keys are outside the order check (DESIGN.md 8.3).",
 },
 "C11": {
  "technique": "property-based testing (rapid): differential against an independent reference for single operators, driver-level idempotence / modified-count / rejection-as-a-whole, operator-independence and positional-operator metamorphic relations; the thorough tier adds native coverage-guided go fuzzing of the same generators and oracle through rapid.MakeFuzz",
  "level_text": "Generated search with four oracles: differential agreement of mongokit.Apply with an independently written reference of MongoDB's update semantics for every operator (type promotion, path creation, $push modifiers, $pull conditions), driver-level invariants (rejected update leaves bytes unchanged, ModifiedCount iff bytes changed, idempotence of the seven idempotent operators), equality of a combined update with its operators applied one at a time, and equality of $[] / $[id] with explicit element paths chosen by the reference matcher. Sampling, not proof.",
  "level_note": "Trusts the reference apply/match in harness/ref inside the declared domain; decimal arithmetic, $currentDate values and field order of newly created siblings are not compared (DESIGN.md 8.2).",
 },
 "C10": {
  "technique": "property-based testing (rapid): differential against an independent reference matcher on the core domain, logical laws and metamorphic relations on the wide domain; the thorough tier adds native coverage-guided go fuzzing of the same generators and oracle through rapid.MakeFuzz",
  "level_text": "Generated search with three oracles: (1) differential agreement of mongokit.Match with an independently written reference matcher (MongoDB path semantics, type bracketing, NaN unordered, element-or-whole array semantics) inside the declared core domain; (2) the logical laws the property lists, checked reference-free on every generated input incl. nested arrays; (3) metamorphic invariance (unrelated field, wrapping, renaming). Hundreds of thousands (quick) to tens of millions (thorough) of cases; sampling, not proof.",
  "level_note": "Trusts the reference matcher (harness/ref) for the agreement part; the reference classifies what is outside its domain itself. Laws and metamorphic relations need no reference. Lazy validation of malformed operator arguments is not judged (outside the quantifier).",
 },
 "C12": {
  "technique": "property-based testing (rapid): generated value triples vs an exact-rational reference order plus order laws; the thorough tier adds native coverage-guided go fuzzing of the same generators and oracle through rapid.MakeFuzz",
  "level_text": "Generated search over triples of BSON values with an explicit oracle: agreement of sign(Compare) with an independently written exact reference order (class ranks, numbers as math/big rationals with NaN < -Inf < finite < +Inf) and the order laws (reflexive, antisymmetric, transitive, equal values interchangeable, context invariance). It samples, it does not prove; the generator is biased to the boundaries the property names (2^53, 2^63, non-finite, late differences).",
  "level_note": "Trusts the reference comparator harness/ref/cmp.go (exact rational arithmetic), the mongo-driver BSON types and rapid. Document comparison follows the property's stated order (key, then value).",
 },
}
