#!/usr/bin/env python3
"""Regenerates MANIFEST.json from checks_config.py and manifest_texts.py."""
import json, os, sys
ROOT = os.path.dirname(os.path.abspath(__file__))
sys.path.insert(0, ROOT)
from checks_config import CHECKS
from manifest_texts import TEXTS, NOT_APPLICABLE, HOOK_COMMITS

props = [json.loads(l)["id"] for l in open(os.path.join(ROOT, "properties.jsonl"))]
checks = []
for pid in props:
    if pid not in CHECKS:
        continue
    t = TEXTS[pid]
    checks.append({
        "property_id": pid,
        "quick_cmd": "./check %s quick" % pid,
        "thorough_cmd": "./check %s thorough" % pid,
        "evidence_file": "/verif/evidence/%s.json" % pid,
        "replay_cmd_template": "./check --replay {path}",
        "engine": "harness",
        "level_claimed": {"category": CHECKS[pid].get("level", "exploration"), "text": t["level_text"], "design_ref": t.get("design_ref", "DESIGN.md section 9, " + pid)},
        "level_note": t["level_note"],
        "technique": t["technique"],
    })
na = [{"property_id": p, "reason": NOT_APPLICABLE.get(p, "check not built yet in this revision of /verif (planned, see DESIGN.md section 9)")} for p in props if p not in CHECKS]
m = {
    "version": 1,
    "setup_cmd": "./check --setup",
    "hooks": {
        "guard": "verif",
        "enable": "go test -tags verif (the harness module replaces github.com/256dpi/lungo with /repo, so every check rebuilds /repo's working tree with the tag on)",
        "baseline_off_cmd": "cd /repo && go test -json -vet=off -count=1 -timeout 25m ./...",
        "source_commits": HOOK_COMMITS,
        "add_only": True,
    },
    "engines": [{"name": "harness", "path": "/verif/harness", "serves_properties": [c["property_id"] for c in checks], "kind_free_text": "Go module with rapid v1.3.0 property tests (generators, independent reference model, stats/evidence), driven by /verif/check (build from /repo, replay tier, sharded generation tier, evidence)"}],
    "checks": checks,
    "not_applicable": na,
    "notes": "Technique family: property-based testing and fuzzing. Every check = generated inputs / histories / schedules / faults + explicit oracle + shrinking to a replay file under /verif/replays/<id>/. Known findings: /verif/known_findings.json.",
}
with open(os.path.join(ROOT, "MANIFEST.json"), "w") as f:
    json.dump(m, f, indent=1)
print("MANIFEST.json: %d checks, %d not claimed" % (len(checks), len(na)))
