#!/bin/bash
# runs every registered check's quick (or given) tier sequentially on the current tree
tier=${1:-quick}
cd "$(dirname "$0")/.."
fail=0
for p in $(python3 -c "import sys; sys.path.insert(0,'.'); from checks_config import CHECKS; print(' '.join(sorted(CHECKS)))"); do
  out=$(./check $p $tier 2>&1); rc=$?
  echo "$p rc=$rc $(echo "$out" | tail -1 | cut -c1-200)"
  [ $rc -ne 0 ] && { fail=1; echo "$out" | head -20; }
done
exit $fail
