#!/usr/bin/env python3
"""Seeded-change tooling (not used by any registered check).

  tools/seed.py import <src-dir> <name>     copy a sub-agent's output to /verif/seeded/<name>
  tools/seed.py verify <name>               scratch worktree: demo passes without / fails with the
                                            patch, library builds, baseline suite passes
  tools/seed.py run <name> [PID ...]        apply in a scratch worktree, run ./check PID quick against it (VERIF_REPO), remove
  tools/seed.py runall [names...]           run every seeded change against its own property's check
"""
import json
import os
import re
import shutil
import subprocess
import sys
import time

ROOT = os.path.dirname(os.path.dirname(os.path.abspath(__file__)))
SEEDED = os.path.join(ROOT, "seeded")
ENV = dict(os.environ, GOFLAGS="-mod=mod", GOPROXY="off")


def sh(cmd, cwd=None, timeout=1800):
    p = subprocess.run(cmd, shell=True, cwd=cwd, env=ENV, stdout=subprocess.PIPE, stderr=subprocess.STDOUT, text=True, timeout=timeout)
    return p.returncode, p.stdout


def imp(src, name):
    dst = os.path.join(SEEDED, name)
    os.makedirs(dst, exist_ok=True)
    for f in os.listdir(src):
        if os.path.isdir(os.path.join(src, f)):
            shutil.copytree(os.path.join(src, f), os.path.join(dst, f), dirs_exist_ok=True)
        else:
            shutil.copy(os.path.join(src, f), os.path.join(dst, f))
    print("imported", name)


def verify(name):
    d = os.path.join(SEEDED, name)
    meta = json.load(open(os.path.join(d, "meta.json")))
    pid = meta["property"]
    wt = "/var/tmp/seedver-%s" % name
    sh("git -C /repo worktree remove --force %s" % wt)
    shutil.rmtree(wt, ignore_errors=True)
    rc, out = sh("git -C /repo worktree add --detach %s HEAD -q" % wt)
    if rc != 0:
        print(out)
        return False
    res = {}
    try:
        cmd = meta.get("demo_cmd", "")
        # normalise paths used by the sub-agent
        cmd = re.sub(r"/tmp/seed[0-9]?-%s\b" % pid, wt, cmd)
        cmd = re.sub(r"/tmp/seed[0-9]?-out/%s" % name, d, cmd)
        cmd = cmd.replace("<worktree>", wt).replace("<repo>", wt)
        # place demo files when the command does not copy them itself
        for f in os.listdir(d):
            if os.path.isdir(os.path.join(d, f)):
                shutil.copytree(os.path.join(d, f), os.path.join(wt, f), dirs_exist_ok=True)
        if "cp " not in cmd:
            m = re.search(r"go test[^\n]*?\s\./([\w/]+?)/?(?:\.\.\.)?(?:\s|$)", cmd)
            sub = m.group(1) if m else "seeddemo_%s" % meta.get("label", "a")
            for f in os.listdir(d):
                if f.endswith(".go"):
                    os.makedirs(os.path.join(wt, sub), exist_ok=True)
                    shutil.copy(os.path.join(d, f), os.path.join(wt, sub, f))
        if not cmd.strip().startswith("cd "):
            cmd = "cd %s && %s" % (wt, cmd)
        rc0, out0 = sh(cmd, cwd=wt)
        res["demo_without"] = rc0
        rc, out = sh("git apply %s" % os.path.join(d, "patch.diff"), cwd=wt)
        res["apply"] = rc
        if rc != 0:
            print(out)
        rcb, outb = sh("go build ./... && go test -vet=off -count=1 -skip Seed ./bsonkit/... ./dbkit/...", cwd=wt)
        res["build_and_suite"] = rcb
        rc1, out1 = sh(cmd, cwd=wt)
        res["demo_with"] = rc1
        ok = rc0 == 0 and rc == 0 and rcb == 0 and rc1 != 0
        res["ok"] = ok
        print(name, json.dumps(res))
        if not ok:
            print("--- demo without patch:\n", out0[-1500:], "\n--- build/suite:\n", outb[-800:], "\n--- demo with patch:\n", out1[-1500:])
        meta["verified"] = {"result": res, "at_repo_commit": sh("git -C /repo rev-parse --short HEAD")[1].strip(), "cmd": cmd}
        json.dump(meta, open(os.path.join(d, "meta.json"), "w"), indent=1)
        return ok
    finally:
        sh("git -C /repo worktree remove --force %s" % wt)
        shutil.rmtree(wt, ignore_errors=True)


def run(name, pids, tier="quick", par=None):
    """applies the change in a scratch worktree (never in /repo) and runs the checks against it"""
    d = os.path.join(SEEDED, name)
    meta = json.load(open(os.path.join(d, "meta.json")))
    if not pids:
        pids = [meta["property"]]
    wt = "/var/tmp/seedrun-%s" % name
    scratch = "/var/tmp/seedscr-%s" % name
    sh("git -C /repo worktree remove --force %s" % wt)
    shutil.rmtree(wt, ignore_errors=True)
    shutil.rmtree(scratch, ignore_errors=True)
    rc, out = sh("git -C /repo worktree add --detach %s HEAD -q" % wt)
    if rc != 0:
        print(out)
        return None
    results = {}
    try:
        rc, out = sh("git apply %s" % os.path.join(d, "patch.diff"), cwd=wt)
        if rc != 0:
            print(name, "patch does not apply:", out)
            return None
        env = "VERIF_REPO=%s VERIF_SCRATCH=%s " % (wt, scratch)
        if par:
            env += "VERIF_PAR=%d " % par
        for pid in pids:
            t0 = time.time()
            rc, out = sh(env + "./check %s %s" % (pid, tier), cwd=ROOT, timeout=7200)
            dt = time.time() - t0
            first = ""
            msg = ""
            lines = out.splitlines()
            for i, line in enumerate(lines):
                if line.startswith("VIOLATION"):
                    first = line
                    if i + 1 < len(lines):
                        msg = lines[i + 1].strip()[:300]
                    break
            results[pid] = {"exit": rc, "wall_s": round(dt, 1), "violation": re.sub(r"replay=\S*/replays/", "replay=replays/", first), "message": msg,
                            "at_repo_commit": sh("git -C /repo rev-parse --short HEAD")[1].strip()}
            print("  %s on %s: exit=%d %.1fs %s %s" % (pid, name, rc, dt, first, msg[:160]), flush=True)
            if rc not in (0, 1):
                print(out[-2000:])
    finally:
        sh("git -C /repo worktree remove --force %s" % wt)
        shutil.rmtree(wt, ignore_errors=True)
        shutil.rmtree(scratch, ignore_errors=True)
    meta = json.load(open(os.path.join(d, "meta.json")))
    meta.setdefault("checked", {}).update(results)
    json.dump(meta, open(os.path.join(d, "meta.json"), "w"), indent=1)
    return results


def runall(names, jobs=4):
    from concurrent.futures import ThreadPoolExecutor
    with ThreadPoolExecutor(max_workers=jobs) as ex:
        list(ex.map(lambda n: run(n, []), names))


def main(a):
    if len(a) >= 4 and a[1] == "import":
        imp(a[2], a[3])
    elif len(a) >= 3 and a[1] == "verify":
        for n in a[2:]:
            verify(n)
    elif len(a) >= 3 and a[1] == "run":
        run(a[2], a[3:])
    elif len(a) >= 2 and a[1] == "runall":
        names = a[2:] or sorted(os.listdir(SEEDED))
        runall(names, int(os.environ.get("SEED_JOBS", "4")))
    else:
        print(__doc__)


if __name__ == "__main__":
    main(sys.argv)
