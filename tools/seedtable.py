#!/usr/bin/env python3
"""Regenerates the seeded-change table in DESIGN.md (between the SEEDTABLE markers)
from seeded/*/meta.json (written by tools/seed.py verify / run)."""
import json
import os
import re

ROOT = os.path.dirname(os.path.dirname(os.path.abspath(__file__)))


def short(s, n):
    s = "".join(ch if ch.isprintable() else "?" for ch in str(s))
    s = " ".join(s.split())
    s = s.replace("|", "\\|")
    return s if len(s) <= n else s[: n - 3] + "..."


rows = []
missed = []
for name in sorted(os.listdir(os.path.join(ROOT, "seeded"))):
    mp = os.path.join(ROOT, "seeded", name, "meta.json")
    if not os.path.exists(mp):
        continue
    m = json.load(open(mp))
    pid = m["property"]
    chk = m.get("checked", {}).get(pid, {})
    ex = chk.get("exit")
    if ex == 1:
        res = "caught: " + short(chk.get("message") or chk.get("violation", ""), 110)
    elif ex == 0:
        res = "**not caught**"
        missed.append(name)
    else:
        res = "not run (exit %s)" % ex
    rows.append("| %s | %s | %s | %s |" % (name, short(m.get("summary", ""), 170), short(m.get("needs", ""), 130), res))

table = "| change | what was changed | needs to manifest | quick check of its property |\n|---|---|---|---|\n" + "\n".join(rows)
table += "\n\n%d changes, %d caught by the quick check of their own property" % (len(rows), len(rows) - len(missed))
if missed:
    table += "; not caught: " + ", ".join(missed)
table += ".\n"
p = os.path.join(ROOT, "DESIGN.md")
s = open(p).read()
a, b = "<!-- SEEDTABLE:BEGIN -->", "<!-- SEEDTABLE:END -->"
if a in s:
    s = s[: s.index(a) + len(a)] + "\n" + table + s[s.index(b):]
    open(p, "w").write(s)
    print("table updated:", len(rows), "rows, missed:", missed)
else:
    print("markers not found")
